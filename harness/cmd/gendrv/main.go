// gendrv binds Generator.tla to the real XML -> Go generator (cmd/fixgen, generator/):
// for one schema it (1) reads the XML with its own structs (independent of the generator's),
// (2) runs the real fixgen binary into a relative, a nested and an absolute output directory, twice,
// (3) extracts the declarations of the generated package with go/parser, (4) writes and runs a
// behavioural driver derived from the XML alone (every setter -> own tag on the wire -> getter),
// and prints one JSON record for GeneratorTrace.
package main

import (
	"bytes"
	"encoding/json"
	"encoding/xml"
	"flag"
	"fmt"
	"go/ast"
	"go/parser"
	"go/token"
	"os"
	"os/exec"
	"path/filepath"
	"sort"
	"strconv"
	"strings"

	"github.com/b2broker/simplefix-go/generator"
	"github.com/b2broker/simplefix-go/utils"
)

// ---- the schema, read independently ----

type xDoc struct {
	Type       string    `xml:"type,attr"`
	Major      string    `xml:"major,attr"`
	Minor      string    `xml:"minor,attr"`
	Header     xComp     `xml:"header"`
	Trailer    xComp     `xml:"trailer"`
	Messages   []xComp   `xml:"messages>message"`
	Components []xComp   `xml:"components>component"`
	Fields     []xField  `xml:"fields>field"`
}
type xComp struct {
	Name    string    `xml:"name,attr"`
	MsgType string    `xml:"msgtype,attr"`
	Members []xMember `xml:",any"`
}
type xMember struct {
	XMLName  xml.Name
	Name     string    `xml:"name,attr"`
	Required string    `xml:"required,attr"`
	Members  []xMember `xml:",any"`
}
type xField struct {
	Number string   `xml:"number,attr"`
	Name   string   `xml:"name,attr"`
	Type   string   `xml:"type,attr"`
	Values []xValue `xml:"value"`
}
type xValue struct {
	Enum        string `xml:"enum,attr"`
	Description string `xml:"description,attr"`
}
type xTypes struct {
	Types []struct {
		Name string `xml:"name,attr"`
		Cast string `xml:"cast,attr"`
	} `xml:"types>type"`
}

// ---- what goes to TLA+ ----

type Member struct {
	Kind     string `json:"kind"` // field | group | component
	Name     string `json:"name"` // schema name
	Required bool   `json:"required"`
	Excluded bool   `json:"excluded"` // framing field kept in the base message (BeginString BodyLength MsgType CheckSum)
	Decl     string `json:"decl"`     // Go identifier of the accessor / member type
	FixType  string `json:"fixType"`  // library value type for fields ("" otherwise)
	GoType   string `json:"goType"`   // Go type of the accessor
}
type Owner struct {
	Name    string   `json:"name"` // Go type name
	Kind    string   `json:"kind"` // message | header | trailer | component | entry
	MsgType string   `json:"msgType"`
	Members []Member `json:"members"`
	Skip    bool     `json:"skipExcluded"` // excluded framing fields are not members (components, header, trailer)
}
type Schema struct {
	Enums    [][2]string `json:"enums"`  // constant name, value
	Fields   [][2]string `json:"fields"` // name, number
	Owners   []Owner     `json:"owners"`
	DupField bool        `json:"dupFieldNumber"`
	DupMsg   bool        `json:"dupMsgType"`
}

type DeclMember struct {
	Kind    string `json:"kind"`
	Decl    string `json:"decl"` // FieldX constant name / group type / component type
	FixType string `json:"fixType"`
}
type Accessor struct {
	Name   string `json:"name"`
	Index  int    `json:"index"`
	GoType string `json:"goType"`
	Setter bool   `json:"setter"` // Set<Name> exists with the same index and type
}
type Arg struct {
	Name string `json:"name"`
	Type string `json:"type"`
}
type OwnerDecl struct {
	Name      string       `json:"name"`
	Members   []DeclMember `json:"members"`
	Accessors []Accessor   `json:"accessors"`
	Args      []Arg        `json:"args"`
	HasCtor   bool         `json:"hasCtor"`
	MsgType   string       `json:"msgType"` // value of MsgType<Name>
	NoTag     string       `json:"noTag"`   // groups: the Field constant of the count tag
}
type Record struct {
	K             string            `json:"k"` // gen
	ID            string            `json:"id"`
	ExpectAccept  bool              `json:"expectAccept"`
	Accepted      bool              `json:"accepted"`
	GenError      string            `json:"genError"`
	Schema        Schema            `json:"schema"`
	Consts        map[string]string `json:"consts"`
	Owners        []OwnerDecl       `json:"owners"`
	Compiled      bool              `json:"compiled"`
	CompileErr    string            `json:"compileErr"`
	Behaviour     bool              `json:"behaviourOk"`
	BehaviourErrs []string          `json:"behaviourErrs"`
	BehaviourN    int               `json:"behaviourChecks"`
	Deterministic bool              `json:"deterministic"`
	DirRelative   string            `json:"dirRelative"` // ok | refused:<msg> | differs
	DirNested     string            `json:"dirNested"`
	DirAbsolute   string            `json:"dirAbsolute"`
	DirPopulated  string            `json:"dirPopulated"` // an output directory that holds an older, longer version of every file
	SameDoc       string            `json:"sameDoc"`      // the schema parsed ONCE, then generated from three times in one process (the generator used as a library)
	RefCompared   bool              `json:"refCompared"`
	RefSame       bool              `json:"refSame"`
	RefDiff       []string          `json:"refDiff"`
}

var excluded = map[string]bool{"BeginString": true, "BodyLength": true, "MsgType": true, "CheckSum": true}
var goOf = map[string]string{"Float": "float64", "Int": "int", "Raw": "[]byte", "Bool": "bool", "String": "string", "Time": "time.Time"}

func groupType(n string) string { return strings.Replace(n, "No", "", 1) + "Grp" }
func entryType(n string) string { return strings.Replace(n, "No", "", 1) + "Entry" }

func fatal(err error) {
	fmt.Fprintln(os.Stderr, "gendrv: DRIVER-ERROR:", err)
	os.Exit(2)
}

func main() {
	xmlPath := flag.String("xml", "", "schema XML")
	typesPath := flag.String("types", "", "types XML")
	id := flag.String("id", "schema", "record id")
	fixgen := flag.String("fixgen", "", "fixgen binary built from the working tree")
	work := flag.String("work", "", "scratch directory (outside /repo and /verif)")
	repo := flag.String("repo", "/repo", "repository root (replace directive of the scratch module)")
	expectAccept := flag.Bool("accept", true, "the schema is expected to be accepted")
	refDir := flag.String("ref", "", "reference package to compare with (tests/fix44)")
	behaviour := flag.Bool("behaviour", true, "compile and run the behavioural driver")
	gobin := flag.String("go", "go", "go command")
	flag.Parse()

	rec := &Record{K: "gen", ID: *id, ExpectAccept: *expectAccept, Consts: map[string]string{}, Owners: []OwnerDecl{}, BehaviourErrs: []string{}, RefDiff: []string{}}
	var doc xDoc
	var types xTypes
	mustXML(*xmlPath, &doc)
	mustXML(*typesPath, &types)
	rec.Schema = buildSchema(&doc, &types)

	// scratch module: <work>/mod with go.mod replacing the library by the working tree
	mod := filepath.Join(*work, "mod")
	must(os.MkdirAll(mod, 0o755))
	gomod := "module genscratch\n\ngo 1.18\n\nrequire github.com/b2broker/simplefix-go v0.0.0\n\nreplace github.com/b2broker/simplefix-go => " + *repo + "\n"
	must(os.WriteFile(filepath.Join(mod, "go.mod"), []byte(gomod), 0o644))
	if b, err := os.ReadFile(filepath.Join(*repo, "go.sum")); err == nil {
		must(os.WriteFile(filepath.Join(mod, "go.sum"), b, 0o644))
	}
	run := func(dir, out string) (string, error) {
		cmd := exec.Command(*fixgen, "-o", out, "-s", *xmlPath, "-t", *typesPath)
		cmd.Dir = dir
		b, err := cmd.CombinedOutput()
		return string(b), err
	}
	// relative output directory (run 1 and run 2: determinism)
	out1, err1 := run(mod, "fixpkg")
	rec.Accepted = err1 == nil
	if err1 != nil {
		rec.GenError = lastLine(out1)
		rec.DirRelative = "refused:" + lastLine(out1)
		emit(rec)
		return
	}
	rec.DirRelative = "ok"
	files1 := readDir(filepath.Join(mod, "fixpkg"))
	must(os.MkdirAll(filepath.Join(*work, "second"), 0o755))
	if _, err := run(filepath.Join(*work, "second"), "fixpkg"); err != nil {
		rec.Deterministic = false
	} else {
		rec.Deterministic = sameFiles(files1, readDir(filepath.Join(*work, "second", "fixpkg")))
	}
	// nested and absolute output directories must yield the same package
	must(os.MkdirAll(filepath.Join(*work, "nest"), 0o755))
	if o, err := run(filepath.Join(*work, "nest"), "a/b/fixpkg"); err != nil {
		rec.DirNested = "refused:" + lastLine(o)
	} else if sameFiles(files1, readDir(filepath.Join(*work, "nest", "a", "b", "fixpkg"))) {
		rec.DirNested = "ok"
	} else {
		rec.DirNested = "differs"
	}
	abs := filepath.Join(*work, "absolute", "fixpkg")
	if o, err := run(*work, abs); err != nil {
		rec.DirAbsolute = "refused:" + lastLine(o)
	} else if sameFiles(files1, readDir(abs)) {
		rec.DirAbsolute = "ok"
	} else {
		rec.DirAbsolute = "differs"
	}
	// an output directory that already holds a package (every file in an older, longer version): same package again
	pop := filepath.Join(*work, "populated", "fixpkg")
	must(os.MkdirAll(pop, 0o755))
	for name, b := range files1 {
		old := append(append([]byte{}, b...), []byte("\n// an older version of this file was longer\nfunc staleTail() { }}}\n")...)
		must(os.WriteFile(filepath.Join(pop, name), old, 0o644))
	}
	if o, err := run(filepath.Join(*work, "populated"), "fixpkg"); err != nil {
		rec.DirPopulated = "refused:" + lastLine(o)
	} else if sameFiles(files1, readDir(pop)) {
		rec.DirPopulated = "ok"
	} else {
		rec.DirPopulated = "differs"
	}
	// the generator used as a library: the schema and the type mapping are parsed once and three packages are generated from
	// those same objects in one process (a fresh Generator each time; absolute, nested-with-trailing-slash and relative directory)
	rec.SameDoc = func() (res string) {
		defer func() {
			if p := recover(); p != nil {
				res = fmt.Sprintf("refused:panic %v", p)
			}
		}()
		doc := &generator.Doc{}
		if err := utils.ParseXML(*xmlPath, doc); err != nil {
			return "refused:" + err.Error()
		}
		config := &generator.Config{}
		if err := utils.ParseXML(*typesPath, config); err != nil {
			return "refused:" + err.Error()
		}
		base := filepath.Join(*work, "samedoc")
		for i, d := range []string{filepath.Join(base, "one", "fixpkg"), filepath.Join(base, "two", "x", "fixpkg") + "/", filepath.Join(base, "three", "fixpkg")} {
			if err := os.MkdirAll(d, 0o755); err != nil {
				return "refused:" + err.Error()
			}
			if err := generator.NewGenerator(doc, config, "fixpkg").Execute(d); err != nil {
				return "refused:" + err.Error()
			}
			if !sameFiles(files1, readDir(d)) {
				return fmt.Sprintf("differs (generation %d from the same schema object)", i+1)
			}
		}
		return "ok"
	}()
	// declarations of the generated package
	extract(filepath.Join(mod, "fixpkg"), rec)
	// reference package: declaration for declaration
	if *refDir != "" {
		ref := &Record{Consts: map[string]string{}}
		extract(*refDir, ref)
		rec.RefCompared = true
		rec.RefDiff = diffDecls(rec, ref)
		if rec.RefDiff == nil {
			rec.RefDiff = []string{}
		}
		rec.RefSame = len(rec.RefDiff) == 0
	}
	// compile + behaviour
	if *behaviour {
		must(os.MkdirAll(filepath.Join(mod, "drv"), 0o755))
		src, n := driverSource(&rec.Schema, &doc)
		rec.BehaviourN = n
		must(os.WriteFile(filepath.Join(mod, "drv", "main.go"), []byte(src), 0o644))
		cmd := exec.Command(*gobin, "build", "-o", filepath.Join(*work, "drv.bin"), "./drv")
		cmd.Dir = mod
		cmd.Env = append(os.Environ(), "GOFLAGS=-mod=mod", "GOPROXY=off", "GOSUMDB=off")
		if b, err := cmd.CombinedOutput(); err != nil {
			rec.CompileErr = tail(string(b), 1500)
		} else {
			rec.Compiled = true
			b, err := exec.Command(filepath.Join(*work, "drv.bin")).CombinedOutput()
			lines := strings.Split(strings.TrimSpace(string(b)), "\n")
			for _, l := range lines {
				if strings.HasPrefix(l, "FAIL ") && len(rec.BehaviourErrs) < 30 {
					rec.BehaviourErrs = append(rec.BehaviourErrs, l)
				}
			}
			rec.Behaviour = err == nil && len(rec.BehaviourErrs) == 0
			if err != nil && len(rec.BehaviourErrs) == 0 {
				rec.BehaviourErrs = append(rec.BehaviourErrs, "driver crashed: "+tail(string(b), 600))
			}
		}
	} else {
		cmd := exec.Command(*gobin, "build", "./fixpkg")
		cmd.Dir = mod
		cmd.Env = append(os.Environ(), "GOFLAGS=-mod=mod", "GOPROXY=off", "GOSUMDB=off")
		if b, err := cmd.CombinedOutput(); err != nil {
			rec.CompileErr = tail(string(b), 1500)
		} else {
			rec.Compiled = true
			rec.Behaviour = true
		}
	}
	emit(rec)
}

func emit(r *Record) {
	b, err := json.Marshal(r)
	if err != nil {
		fatal(err)
	}
	fmt.Println(string(b))
}

func must(err error) {
	if err != nil {
		fatal(err)
	}
}
func mustXML(p string, v interface{}) {
	b, err := os.ReadFile(p)
	must(err)
	must(xml.Unmarshal(b, v))
}
func lastLine(s string) string {
	for _, l := range strings.Split(s, "\n") {
		if strings.HasPrefix(l, "panic:") {
			return tail(l, 300)
		}
	}
	return tail(strings.TrimSpace(s), 300)
}
func tail(s string, n int) string {
	if len(s) > n {
		return s[len(s)-n:]
	}
	return s
}
func readDir(d string) map[string][]byte {
	out := map[string][]byte{}
	es, _ := os.ReadDir(d)
	for _, e := range es {
		b, _ := os.ReadFile(filepath.Join(d, e.Name()))
		out[e.Name()] = b
	}
	return out
}
func sameFiles(a, b map[string][]byte) bool {
	if len(a) != len(b) || len(a) == 0 {
		return false
	}
	for k, v := range a {
		if !bytes.Equal(v, b[k]) {
			return false
		}
	}
	return true
}

func buildSchema(doc *xDoc, types *xTypes) Schema {
	cast := map[string]string{}
	for _, t := range types.Types {
		cast[t.Name] = t.Cast
	}
	fields := map[string]xField{}
	s := Schema{Fields: [][2]string{}, Owners: []Owner{}, Enums: [][2]string{}}
	seenNum := map[string]bool{}
	for _, f := range doc.Fields {
		fields[f.Name] = f
		s.Fields = append(s.Fields, [2]string{f.Name, f.Number})
		if seenNum[f.Number] {
			s.DupField = true
		}
		seenNum[f.Number] = true
		if len(f.Values) > 0 && cast[f.Type] != "Bool" {
			// naming rule of enumeration constants: Enum<Field><Description words capitalised>
			for _, v := range f.Values {
				name := ""
				for _, part := range strings.Split(v.Description, "_") {
					if part == "" {
						name = ""
						break
					}
					name += part[:1] + strings.ToLower(part)[1:]
				}
				if name != "" {
					s.Enums = append(s.Enums, [2]string{"Enum" + f.Name + name, v.Enum})
				}
			}
		}
	}
	fixTypeOf := func(name string) string {
		f, ok := fields[name]
		if !ok {
			return "?"
		}
		if len(f.Values) > 0 && cast[f.Type] != "Bool" {
			return "String" // enumerations are carried as strings
		}
		if c, ok := cast[f.Type]; ok {
			return c
		}
		return "Raw"
	}
	groups := map[string]xMember{}
	var grab func(ms []xMember)
	grab = func(ms []xMember) {
		for _, m := range ms {
			if m.XMLName.Local == "group" {
				groups[m.Name] = m
			}
			grab(m.Members)
		}
	}
	members := func(ms []xMember) []Member {
		out := []Member{}
		for _, m := range ms {
			mm := Member{Kind: m.XMLName.Local, Name: m.Name, Required: m.Required == "Y", Excluded: excluded[m.Name]}
			switch mm.Kind {
			case "field":
				mm.Decl = m.Name
				mm.FixType = fixTypeOf(m.Name)
				mm.GoType = goOf[mm.FixType]
			case "group":
				mm.Decl = groupType(m.Name)
				mm.GoType = "*" + mm.Decl
			case "component":
				mm.Decl = m.Name
				mm.GoType = "*" + m.Name
			}
			out = append(out, mm)
		}
		return out
	}
	seenMT := map[string]bool{}
	s.Owners = append(s.Owners, Owner{Name: "Header", Kind: "header", Members: members(doc.Header.Members), Skip: true})
	s.Owners = append(s.Owners, Owner{Name: "Trailer", Kind: "trailer", Members: members(doc.Trailer.Members), Skip: true})
	grab(doc.Header.Members)
	grab(doc.Trailer.Members)
	for _, m := range doc.Messages {
		if seenMT[m.MsgType] {
			s.DupMsg = true
		}
		seenMT[m.MsgType] = true
		s.Owners = append(s.Owners, Owner{Name: m.Name, Kind: "message", MsgType: m.MsgType, Members: members(m.Members)})
		grab(m.Members)
	}
	for _, c := range doc.Components {
		s.Owners = append(s.Owners, Owner{Name: c.Name, Kind: "component", Members: members(c.Members), Skip: true})
		grab(c.Members)
	}
	names := make([]string, 0, len(groups))
	for n := range groups {
		names = append(names, n)
	}
	sort.Strings(names)
	for _, n := range names {
		s.Owners = append(s.Owners, Owner{Name: entryType(n), Kind: "entry", MsgType: n, Members: members(groups[n].Members)})
	}
	return s
}

// ---- declarations of a generated package (go/parser) ----

func extract(dir string, rec *Record) {
	fset := token.NewFileSet()
	pkgs, err := parser.ParseDir(fset, dir, nil, 0)
	if err != nil {
		rec.CompileErr = "parse: " + err.Error()
		return
	}
	owners := map[string]*OwnerDecl{}
	get := func(n string) *OwnerDecl {
		if o, ok := owners[n]; ok {
			return o
		}
		o := &OwnerDecl{Name: n, Members: []DeclMember{}, Accessors: []Accessor{}, Args: []Arg{}}
		owners[n] = o
		return o
	}
	typeStr := func(e ast.Expr) string {
		var b bytes.Buffer
		var w func(e ast.Expr)
		w = func(e ast.Expr) {
			switch t := e.(type) {
			case *ast.Ident:
				b.WriteString(t.Name)
			case *ast.StarExpr:
				b.WriteString("*")
				w(t.X)
			case *ast.SelectorExpr:
				w(t.X)
				b.WriteString(".")
				b.WriteString(t.Sel.Name)
			case *ast.ArrayType:
				b.WriteString("[]")
				w(t.Elt)
			default:
				b.WriteString("?")
			}
		}
		w(e)
		return b.String()
	}
	// member list from a constructor call list: fix.NewKeyValue(FieldX, &fix.T{}) | NewXGrp().Group | makeX().Component
	memberOf := func(e ast.Expr) (DeclMember, bool) {
		switch t := e.(type) {
		case *ast.CallExpr:
			if sel, ok := t.Fun.(*ast.SelectorExpr); ok && sel.Sel.Name == "NewKeyValue" && len(t.Args) == 2 {
				dm := DeclMember{Kind: "field"}
				if id, ok := t.Args[0].(*ast.Ident); ok {
					dm.Decl = id.Name
				}
				if u, ok := t.Args[1].(*ast.UnaryExpr); ok {
					if cl, ok := u.X.(*ast.CompositeLit); ok {
						dm.FixType = strings.TrimPrefix(typeStr(cl.Type), "fix.")
					}
				}
				return dm, true
			}
		case *ast.SelectorExpr:
			if call, ok := t.X.(*ast.CallExpr); ok {
				if id, ok := call.Fun.(*ast.Ident); ok {
					if t.Sel.Name == "Group" {
						return DeclMember{Kind: "group", Decl: strings.TrimPrefix(id.Name, "New")}, true
					}
					if t.Sel.Name == "Component" {
						return DeclMember{Kind: "component", Decl: strings.TrimPrefix(id.Name, "make")}, true
					}
				}
			}
		}
		return DeclMember{}, false
	}
	var findList func(n ast.Node, want string) []ast.Expr
	findList = func(n ast.Node, want string) []ast.Expr {
		var res []ast.Expr
		ast.Inspect(n, func(x ast.Node) bool {
			if res != nil {
				return false
			}
			if c, ok := x.(*ast.CallExpr); ok {
				if sel, ok := c.Fun.(*ast.SelectorExpr); ok && sel.Sel.Name == want {
					res = c.Args
					return false
				}
			}
			return true
		})
		return res
	}
	intLit := func(e ast.Expr) int {
		if bl, ok := e.(*ast.BasicLit); ok {
			n, _ := strconv.Atoi(bl.Value)
			return n
		}
		return -1
	}
	getIndex := func(fn *ast.FuncDecl) int {
		idx := -1
		ast.Inspect(fn.Body, func(x ast.Node) bool {
			if c, ok := x.(*ast.CallExpr); ok {
				if sel, ok := c.Fun.(*ast.SelectorExpr); ok && (sel.Sel.Name == "Get" || sel.Sel.Name == "Set") && len(c.Args) >= 1 {
					if _, isRecv := sel.X.(*ast.Ident); isRecv && idx == -1 {
						if v := intLit(c.Args[0]); v >= 0 {
							idx = v
						}
					}
				}
			}
			return true
		})
		return idx
	}
	setters := map[string]map[string]Accessor{}
	for _, pkg := range pkgs {
		for _, f := range pkg.Files {
			for _, d := range f.Decls {
				switch t := d.(type) {
				case *ast.GenDecl:
					if t.Tok == token.CONST {
						for _, sp := range t.Specs {
							vs := sp.(*ast.ValueSpec)
							for i, n := range vs.Names {
								if i < len(vs.Values) {
									if bl, ok := vs.Values[i].(*ast.BasicLit); ok {
										v, _ := strconv.Unquote(bl.Value)
										rec.Consts[n.Name] = v
									}
								}
							}
						}
					}
				case *ast.FuncDecl:
					name := t.Name.Name
					if t.Recv == nil {
						switch {
						case strings.HasPrefix(name, "make"):
							o := get(strings.TrimPrefix(name, "make"))
							o.HasCtor = true
							list := findList(t.Body, "SetBody")
							if list == nil {
								list = findList(t.Body, "NewComponent")
							}
							for _, e := range list {
								if dm, ok := memberOf(e); ok {
									o.Members = append(o.Members, dm)
								}
							}
						case strings.HasPrefix(name, "Create"), strings.HasPrefix(name, "New") && !strings.HasSuffix(name, "Grp"):
							on := strings.TrimPrefix(name, "New")
							if strings.HasPrefix(name, "Create") {
								on = strings.TrimPrefix(name, "Create")
							}
							if strings.HasPrefix(name, "New") && t.Type.Params.NumFields() == 0 {
								// New<Message>() without arguments is the plain constructor of a message
								if _, isMsg := rec.Consts["MsgType"+on]; isMsg {
									break
								}
							}
							o := get(on)
							if strings.HasPrefix(name, "Create") || len(o.Args) == 0 {
								o.Args = []Arg{}
								for _, p := range t.Type.Params.List {
									for _, n := range p.Names {
										o.Args = append(o.Args, Arg{n.Name, typeStr(p.Type)})
									}
								}
							}
						case strings.HasPrefix(name, "New") && strings.HasSuffix(name, "Grp"):
							o := get(strings.TrimPrefix(name, "New"))
							list := findList(t.Body, "NewGroup")
							if len(list) > 0 {
								if id, ok := list[0].(*ast.Ident); ok {
									o.NoTag = id.Name
								}
								for _, e := range list[1:] {
									if dm, ok := memberOf(e); ok {
										o.Members = append(o.Members, dm)
									}
								}
							}
						}
					} else if len(t.Recv.List) == 1 && len(t.Recv.List[0].Names) == 1 {
						owner := strings.TrimPrefix(typeStr(t.Recv.List[0].Type), "*")
						idx := getIndex(t)
						if idx < 0 {
							continue
						}
						if strings.HasPrefix(name, "Set") && !strings.HasPrefix(name, "SetField") && t.Type.Params.NumFields() == 1 {
							if setters[owner] == nil {
								setters[owner] = map[string]Accessor{}
							}
							setters[owner][strings.TrimPrefix(name, "Set")] = Accessor{Name: strings.TrimPrefix(name, "Set"), Index: idx, GoType: typeStr(t.Type.Params.List[0].Type)}
						} else if t.Type.Params.NumFields() == 0 && t.Type.Results != nil && t.Type.Results.NumFields() == 1 {
							o := get(owner)
							o.Accessors = append(o.Accessors, Accessor{Name: name, Index: idx, GoType: typeStr(t.Type.Results.List[0].Type)})
						}
					}
				}
			}
		}
	}
	names := make([]string, 0, len(owners))
	for n := range owners {
		names = append(names, n)
	}
	sort.Strings(names)
	rec.Owners = []OwnerDecl{}
	for _, n := range names {
		o := owners[n]
		sort.Slice(o.Accessors, func(i, j int) bool { return o.Accessors[i].Index < o.Accessors[j].Index })
		for i := range o.Accessors {
			if st, ok := setters[n][o.Accessors[i].Name]; ok && st.Index == o.Accessors[i].Index && st.GoType == o.Accessors[i].GoType {
				o.Accessors[i].Setter = true
			}
		}
		if v, ok := rec.Consts["MsgType"+n]; ok {
			o.MsgType = v
		}
		rec.Owners = append(rec.Owners, *o)
	}
}

func diffDecls(a, b *Record) []string {
	var out []string
	add := func(s string) {
		if len(out) < 30 {
			out = append(out, s)
		}
	}
	for k, v := range a.Consts {
		if bv, ok := b.Consts[k]; !ok {
			add("constant missing in reference: " + k)
		} else if bv != v {
			add("constant differs: " + k)
		}
	}
	for k := range b.Consts {
		if _, ok := a.Consts[k]; !ok {
			add("constant only in reference: " + k)
		}
	}
	bo := map[string]OwnerDecl{}
	for _, o := range b.Owners {
		bo[o.Name] = o
	}
	for _, o := range a.Owners {
		r, ok := bo[o.Name]
		if !ok {
			add("type missing in reference: " + o.Name)
			continue
		}
		ja, _ := json.Marshal(o)
		jb, _ := json.Marshal(r)
		if !bytes.Equal(ja, jb) {
			add("declarations differ: " + o.Name)
		}
		delete(bo, o.Name)
	}
	for n := range bo {
		add("type only in reference: " + n)
	}
	sort.Strings(out)
	return out
}

// ---- behavioural driver, derived from the XML alone ----

func sampleValue(goType string, k int) (lit string, wire string) {
	switch goType {
	case "string":
		return strconv.Quote("v" + strconv.Itoa(k)), "v" + strconv.Itoa(k)
	case "int":
		return strconv.Itoa(100 + k), strconv.Itoa(100 + k)
	case "float64":
		return strconv.Itoa(k) + ".5", strconv.Itoa(k) + ".5"
	case "bool":
		return "true", "Y"
	case "[]byte":
		return "[]byte(" + strconv.Quote("r"+strconv.Itoa(k)) + ")", "r" + strconv.Itoa(k)
	case "time.Time":
		return "time.Date(2024, 1, 2, 3, 4, 5, 6000000, time.UTC)", "20240102-03:04:05.006"
	}
	return "", ""
}

func driverSource(s *Schema, doc *xDoc) (string, int) {
	num := map[string]string{}
	for _, f := range s.Fields {
		num[f[0]] = f[1]
	}
	var b strings.Builder
	b.WriteString("package main\n\nimport (\n\t\"bytes\"\n\t\"fmt\"\n\t\"os\"\n\t\"time\"\n\n\tp \"genscratch/fixpkg\"\n)\n\nvar _ = time.Now\nvar failed bool\n\n")
	b.WriteString("func has(w []byte, tag, val string) bool { return bytes.Contains(w, []byte(\"\\x01\"+tag+\"=\"+val+\"\\x01\")) }\n")
	b.WriteString("func fail(f string, a ...interface{}) { failed = true; fmt.Printf(\"FAIL \"+f+\"\\n\", a...) }\n\nfunc main() {\n")
	n := 0
	for _, o := range s.Owners {
		if o.Kind != "message" {
			continue
		}
		k := 0
		for _, m := range o.Members {
			if m.Kind != "field" {
				continue
			}
			k++
			lit, wire := sampleValue(m.GoType, k)
			if lit == "" {
				continue
			}
			n++
			cmp := fmt.Sprintf("m.%s() != %s", m.Decl, lit)
			if m.GoType == "[]byte" {
				cmp = fmt.Sprintf("!bytes.Equal(m.%s(), %s)", m.Decl, lit)
			}
			if m.GoType == "time.Time" {
				cmp = fmt.Sprintf("!m.%s().Equal(%s)", m.Decl, lit)
			}
			fmt.Fprintf(&b, "\tfunc() {\n\t\tdefer func() { if r := recover(); r != nil { fail(\"%s.%s: panic %%v\", r) } }()\n\t\tm := p.New%s()\n\t\tm.Set%s(%s)\n", o.Name, m.Decl, o.Name, m.Decl, lit)
			fmt.Fprintf(&b, "\t\tw, err := m.ToBytes()\n\t\tif err != nil || !has(w, %q, %q) {\n\t\t\tfail(\"%s.Set%s: tag %s=%s not on the wire: %%q\", w)\n\t\t}\n", num[m.Name], wire, o.Name, m.Decl, num[m.Name], wire)
			fmt.Fprintf(&b, "\t\tif %s {\n\t\t\tfail(\"%s.%s: getter does not return the value set\")\n\t\t}\n", cmp, o.Name, m.Decl)
			// exactly its own field: one body field on the wire besides the framing ones
			fmt.Fprintf(&b, "\t\tif c := bytes.Count(w, []byte{1}); c != 5 {\n\t\t\tfail(\"%s.Set%s: %%d fields on the wire, want BeginString BodyLength MsgType <field> CheckSum\", c)\n\t\t}\n\t}()\n", o.Name, m.Decl)
		}
		fmt.Fprintf(&b, "\tif p.MsgType%s != %q { fail(\"MsgType%s\") }\n", o.Name, o.MsgType, o.Name)
	}
	b.WriteString("\tif failed {\n\t\tos.Exit(1)\n\t}\n\tfmt.Println(\"OK\")\n}\n")
	return b.String(), n
}
