// wiredrv runs codec cases against the real fix / fix/encoding packages and writes the
// observations as ndjson for FixWireTrace.
//
//	wiredrv -mode gen    -seed S -n N -families cases,sized,wrap,look,empty,values,damage,raw -out obs.ndjson
//	wiredrv -mode replay -cases cases.ndjson -out obs.ndjson   (cases emitted by TLC from MCFixWire)
package main

import (
	"bufio"
	"encoding/json"
	"flag"
	"fmt"
	"os"
	"strings"
	"time"

	"github.com/b2broker/simplefix-go/fix"
	"verifharness/codec"
	"verifharness/fix44reg"
)

func main() {
	mode := flag.String("mode", "gen", "gen | replay | rawreplay")
	seed := flag.Int64("seed", 1, "seed")
	n := flag.Int("n", 200, "cases per family")
	fam := flag.String("families", "cases,sized,wrap,look,empty,values", "families")
	casesFile := flag.String("cases", "", "cases file for replay")
	out := flag.String("out", "obs.ndjson", "output")
	fullDamage := flag.Bool("fulldamage", false, "all 255 substitution values")
	flag.Parse()

	f, err := os.Create(*out)
	if err != nil {
		fatal(err)
	}
	w := bufio.NewWriterSize(f, 1<<20)
	enc := json.NewEncoder(w)
	count := 0
	emit := func(v interface{}) {
		if err := enc.Encode(v); err != nil {
			fatal(err)
		}
		count++
		if codec.Hangs >= 4 { // library calls that never return keep processors busy: stop here with what has been recorded
			if err := w.Flush(); err != nil {
				fatal(err)
			}
			f.Close()
			fmt.Printf("wiredrv: %d records -> %s (stopped early: %d library calls did not return)\n", count, *out, codec.Hangs)
			os.Exit(0)
		}
	}
	runCase := func(c *codec.Case) *codec.CaseObs {
		o, err := codec.RunCase(c)
		if err != nil {
			fatal(err)
		}
		emit(o)
		return o
	}

	switch *mode {
	case "replay":
		in, err := os.Open(*casesFile)
		if err != nil {
			fatal(err)
		}
		sc := bufio.NewScanner(in)
		sc.Buffer(make([]byte, 1<<20), 1<<26)
		for sc.Scan() {
			line := strings.TrimSpace(sc.Text())
			if line == "" {
				continue
			}
			var c codec.Case
			if err := json.Unmarshal([]byte(line), &c); err != nil {
				fatal(fmt.Errorf("bad case line: %v: %.200s", err, line))
			}
			o := runCase(&c)
			if strings.Contains(*fam, "late") { // the same case built in the other order
				c2 := c
				c2.ID = c.ID + "/late"
				c2.Late = true
				runCase(&c2)
			}
			if strings.Contains(*fam, "damage") {
				if o.SerOk {
					emit(codec.RunDamage(c.ID+"/dmg", &c.M, o.Wire.Bytes(), *fullDamage))
				}
			}
		}
	case "rawreplay":
		// lines: {"id":..,"tags":..,"tmpl":msg,"input":[..],"lookup":[..]}
		in, err := os.Open(*casesFile)
		if err != nil {
			fatal(err)
		}
		sc := bufio.NewScanner(in)
		sc.Buffer(make([]byte, 1<<20), 1<<26)
		for sc.Scan() {
			var rc struct {
				ID     string    `json:"id"`
				Tmpl   codec.Msg `json:"tmpl"`
				Input  codec.B   `json:"input"`
				Lookup codec.B   `json:"lookup"`
			}
			if err := json.Unmarshal(sc.Bytes(), &rc); err != nil {
				fatal(err)
			}
			rc.Tmpl.Norm()
			for _, op := range []string{"strict", "nonstrict", "lookup"} {
				emit(codec.RunRaw(rc.ID+"/"+op, &rc.Tmpl, op, rc.Input.Bytes(), rc.Lookup.String(), 2*time.Second))
			}
		}
	case "gen":
		g := codec.NewGen(*seed)
		has := func(s string) bool {
			for _, x := range strings.Split(*fam, ",") {
				if x == s {
					return true
				}
			}
			return false
		}
		var dmgBases []*codec.CaseObs
		var dmgTmpl []*codec.Case
		keep := func(c *codec.Case, o *codec.CaseObs) {
			if o.SerOk && len(o.Wire) <= 160 && len(dmgBases) < *n {
				dmgBases = append(dmgBases, o)
				dmgTmpl = append(dmgTmpl, c)
			}
		}
		if has("cases") {
			for i := 0; i < *n; i++ {
				c := g.RandomCase(false, false)
				keep(c, runCase(c))
			}
		}
		if has("trailer") {
			for i := 0; i < *n; i++ {
				c := g.RandomCase(false, true)
				runCase(c)
			}
		}
		if has("sized") {
			for _, base := range []int{9, 10, 11, 99, 100, 101, 999, 1000, 1001, 9999, 10000} {
				for d := 0; d < 1+*n/40; d++ {
					runCase(g.SizedCase(base))
				}
			}
			for t := 10; t < 10+*n && t < 1200; t++ {
				runCase(g.SizedCase(t))
			}
		}
		if has("wrap") {
			for i := 0; i < 1+*n/10; i++ {
				runCase(g.WrapCase(100))
				runCase(g.WrapCase(10))
			}
		}
		if has("look") {
			for i := 0; i < *n; i++ {
				c := g.RandomCase(true, false)
				keep(c, runCase(c))
			}
			for i := 0; i < *n; i++ {
				runCase(g.NeighbourCase())
			}
		}
		if has("sharedparser") {
			var cs []*codec.Case
			var bs []*codec.CaseObs
			for i := 0; i < 12; i++ {
				c := g.RandomCase(false, false)
				o, err := codec.RunCase(c)
				if err != nil {
					fatal(err)
				}
				cs, bs = append(cs, c), append(bs, o)
			}
			for _, o := range codec.RunSharedParser(cs, bs, 3000) {
				emit(o)
			}
		}
		if has("sharedcmp") {
			for i := 0; i < 1+*n/10; i++ {
				c := g.RandomCase(false, false)
				if len(c.M.Header) == 0 {
					continue
				}
				for _, o := range codec.RunSharedComponent(c, 4, 400) {
					emit(o)
				}
			}
		}
		if has("loose") {
			for i := 0; i < *n; i++ {
				c := g.LooseEntryCase()
				runCase(c)
				emit(codec.RunAgain(c))
				c2 := *c
				c2.ID = c.ID + "/late"
				c2.Late = true
				runCase(&c2)
			}
		}
		if has("zones") {
			// only where the library prints a zoned time.Time as the clock reading in its own zone (as time.Time.Format does); a
			// library that normalised to UTC would have another canonical text and these cases would not apply to it
			probe := time.Date(2001, 2, 3, 4, 5, 6, 7000000, time.FixedZone("", 19800))
			if string(fix.NewTime(probe).ToBytes()) == probe.Format("20060102-15:04:05.000") {
				for i := 0; i < 1+*n/4; i++ {
					c := g.ZonedCase()
					runCase(c)
				}
			} else {
				fmt.Println("wiredrv: family zones skipped: a zoned time.Time is not printed as its own clock reading")
			}
		}
		if has("empty") {
			for i := 0; i < 1+*n/4; i++ {
				runCase(g.EmptyValueCase())
			}
		}
		if has("values") {
			for i := 0; i < *n; i++ {
				ty := []string{"string", "int", "uint", "float", "time", "bool", "raw"}[i%7]
				id, ops := g.ValueOps(ty, 1+g.R.Intn(6))
				o, err := codec.RunValueOps(id, ty, ops)
				if err != nil {
					fatal(err)
				}
				emit(o)
			}
		}
		if has("damage") {
			for i, o := range dmgBases {
				emit(codec.RunDamage(o.ID+"/dmg", &dmgTmpl[i].M, o.Wire.Bytes(), *fullDamage))
			}
			for i, o := range dmgBases {
				if i%4 == 0 {
					emit(codec.RunDamageConcurrent(o.ID+"/dmg-concurrent", &dmgTmpl[i].M, o.Wire.Bytes(), 1500))
				}
			}
		}
		if has("reuse") {
			for i := 0; i < *n; i++ {
				c := g.RandomCase(i%2 == 0, false)
				obs, err := codec.RunReuse(c, g.R.Intn(1000), func(ty string) []byte { return g.RandValue(ty) })
				if err != nil {
					fatal(err)
				}
				for _, o := range obs {
					emit(o)
				}
			}
		}
		if has("fix44") {
			if len(fix44reg.All) == 0 {
				fatal(fmt.Errorf("fix44 registry is empty (reg_gen.go not generated)"))
			}
			per := 1 + *n/len(fix44reg.All)
			for _, e := range fix44reg.All {
				for k := 0; k < per; k++ {
					o, err := g.ObjectCase(e.Name, e.New, *seed*1000003+int64(k))
					if err != nil {
						fatal(fmt.Errorf("fix44 %s: %v", e.Name, err))
					}
					emit(o)
				}
			}
		}
		if has("concdecode") {
			for _, o := range codec.RunConcurrentFirstDecodes("cd", 40+*n/10, 12, 20000+int(*seed%1000)*100) {
				emit(o)
			}
		}
		if has("raw") {
			for i := 0; i < *n && codec.Hangs < 4; i++ {
				for _, r := range g.RawInputs() {
					emit(r)
				}
			}
		}
	default:
		fatal(fmt.Errorf("unknown mode %s", *mode))
	}
	if err := w.Flush(); err != nil {
		fatal(err)
	}
	f.Close()
	fmt.Printf("wiredrv: %d records -> %s\n", count, *out)
}

func fatal(err error) {
	fmt.Fprintln(os.Stderr, "wiredrv: DRIVER-ERROR:", err)
	os.Exit(2)
}
