package codec

import (
	"bytes"
	"fmt"
	"math"
	"math/rand"
	"strconv"
	"strings"
	"time"
)

// Gen produces the Go-side case families (what the bounded TLC model cannot reach:
// real value types with extreme values, long bodies on BodyLength digit boundaries,
// checksum wrap-arounds, configurable framing tags, deep nesting).
type Gen struct {
	R      *rand.Rand
	nextID int
	tagSeq int
	used   map[string]bool
	loose  bool // entries need not have their first field populated and may be empty
}

func NewGen(seed int64) *Gen { return &Gen{R: rand.New(rand.NewSource(seed))} }

func (g *Gen) id(prefix string) string {
	g.nextID++
	return fmt.Sprintf("%s%d", prefix, g.nextID)
}

var stdTags = Tags{Bs: S2B("8"), Bl: S2B("9"), Mt: S2B("35"), Cs: S2B("10")}

// tag pools with decimal suffix/prefix relations between members
var tagPool = []string{"14", "146", "1146", "46", "6", "11", "110", "210", "21", "1", "100", "1000", "55", "555", "5", "34", "134", "340", "553", "53", "3", "384", "38", "84", "372", "72", "7", "16", "116", "160", "49", "56", "52", "112", "12", "2", "98", "108", "8", "109", "910", "1035", "135", "350"}

func (g *Gen) freshTag(t Tags) B {
	for {
		var s string
		if g.R.Intn(4) > 0 {
			s = tagPool[g.R.Intn(len(tagPool))]
		} else {
			s = strconv.Itoa(1 + g.R.Intn(99999))
		}
		if g.used[s] || s == t.Bs.String() || s == t.Bl.String() || s == t.Mt.String() || s == t.Cs.String() {
			continue
		}
		g.used[s] = true
		return S2B(s)
	}
}

var types = []string{"string", "int", "uint", "float", "time", "bool", "raw"}

func (g *Gen) randBytes(n int, lookTags []string) []byte {
	out := make([]byte, 0, n)
	for len(out) < n {
		switch g.R.Intn(12) {
		case 0:
			out = append(out, '=')
		case 1:
			out = append(out, byte('0'+g.R.Intn(10)))
		case 2:
			if len(lookTags) > 0 {
				t := lookTags[g.R.Intn(len(lookTags))] + "="
				out = append(out, []byte(t)...)
				if g.R.Intn(3) == 0 { // the text twice in a row ("141=141=Y")
					out = append(out, []byte(t)...)
				}
			}
		case 3:
			b := byte(g.R.Intn(256))
			if b == 1 {
				b = 2
			}
			out = append(out, b)
		case 4:
			out = append(out, ' ')
		default:
			out = append(out, byte('A'+g.R.Intn(26)))
		}
	}
	return out[:n]
}

// randValue returns canonical text of a random value of type ty.
func (g *Gen) randValue(ty string, lookTags []string) []byte {
	switch ty {
	case "string", "raw":
		if g.R.Intn(12) == 0 { // white space at the edges of a value, values that are nothing but white space, control characters
			return []byte([]string{" x", "x ", " ", "  ", "\tx", "x\t", "\r\n", "x\r", "\nx", " a b ", "\v", "\f x", "\xc2\xa0x", "x\xc2\x85", "\x00", "\x00x", "x\x00", "\x02"}[g.R.Intn(18)])
		}
		n := 1 + g.R.Intn(12)
		if g.R.Intn(10) == 0 {
			n = 1 + g.R.Intn(200)
		}
		return g.randBytes(n, lookTags)
	case "int":
		switch g.R.Intn(6) {
		case 0:
			return Canon(ty, math.MaxInt64)
		case 1:
			return Canon(ty, math.MinInt64)
		case 2:
			return Canon(ty, 0)
		case 3:
			return Canon(ty, -g.R.Intn(1000))
		}
		return Canon(ty, int(g.R.Int63())>>uint(g.R.Intn(63)))
	case "uint":
		switch g.R.Intn(4) {
		case 0:
			return Canon(ty, uint64(math.MaxUint64))
		case 1:
			return Canon(ty, uint64(0))
		}
		return Canon(ty, g.R.Uint64()>>uint(g.R.Intn(64)))
	case "float":
		var f float64
		switch g.R.Intn(8) {
		case 0:
			f = 0
		case 1:
			f = math.MaxFloat64
		case 2:
			f = math.SmallestNonzeroFloat64
		case 3:
			f = -1.5
		case 4:
			f = float64(g.R.Intn(100000)) / 100
		case 5:
			f = math.Float64frombits(g.R.Uint64())
			if math.IsNaN(f) || math.IsInf(f, 0) {
				f = 1.25
			}
		default:
			f = g.R.NormFloat64() * math.Pow(10, float64(g.R.Intn(20)-10))
		}
		return Canon(ty, f)
	case "time":
		t := time.Date(1970+g.R.Intn(130), time.Month(1+g.R.Intn(12)), 1+g.R.Intn(28), g.R.Intn(24), g.R.Intn(60), g.R.Intn(60), g.R.Intn(1000)*1000000, time.UTC)
		return Canon(ty, t)
	case "bool":
		return Canon(ty, g.R.Intn(2) == 0)
	}
	panic(ty)
}

func (g *Gen) via(ty string) string {
	return []string{"new", "set", "parse"}[g.R.Intn(3)]
}

func (g *Gen) leaf(t Tags, pPop float64, look []string, forcePop bool) Node {
	ty := types[g.R.Intn(len(types))]
	n := Node{K: "kv", Tag: g.freshTag(t), Ty: ty, Txt: B{}}
	if forcePop || g.R.Float64() < pPop {
		n.Pop = true
		n.Txt = ToB(g.randValue(ty, look))
		n.Via = g.via(ty)
	}
	return n
}

// template builds an unpopulated item list of the given depth budget.
func (g *Gen) template(t Tags, depth, maxItems int, firstMustBeLeafOrGroup bool) []Node {
	n := 1 + g.R.Intn(maxItems)
	out := make([]Node, 0, n)
	for i := 0; i < n; i++ {
		k := g.R.Intn(10)
		switch {
		case depth > 0 && k < 2 && !(firstMustBeLeafOrGroup && i == 0):
			out = append(out, Node{K: "cmp", Items: g.template(t, depth-1, 3, false)})
		case depth > 0 && k < 4 && !(firstMustBeLeafOrGroup && i == 0):
			out = append(out, Node{K: "grp", Tag: g.freshTag(t), Tmpl: g.template(t, depth-1, 3, true), Entries: [][]Node{}})
		default:
			out = append(out, Node{K: "kv", Tag: g.freshTag(t), Ty: types[g.R.Intn(len(types))], Txt: B{}})
		}
	}
	return out
}

// populate fills a template copy; in group entries the first leaf is always populated.
func (g *Gen) populate(tmpl []Node, pPop float64, look []string, first bool) []Node {
	out := make([]Node, len(tmpl))
	for i, n := range tmpl {
		force := first && i == 0
		switch n.K {
		case "kv":
			c := n
			c.Txt = B{}
			if force || g.R.Float64() < pPop {
				c.Pop = true
				c.Txt = ToB(g.randValue(n.Ty, look))
				c.Via = g.via(n.Ty)
			}
			out[i] = c
		case "grp":
			c := Node{K: "grp", Tag: n.Tag, Tmpl: n.Tmpl, Entries: [][]Node{}}
			cnt := 0
			if g.R.Float64() < pPop {
				cnt = 1 + g.R.Intn(3)
			}
			if g.loose {
				cnt = 1 + g.R.Intn(4)
			}
			for e := 0; e < cnt; e++ {
				switch {
				case g.loose && g.R.Intn(3) == 0: // nothing populated
					c.Entries = append(c.Entries, g.populate(n.Tmpl, 0, look, false))
				case g.loose:
					c.Entries = append(c.Entries, g.populate(n.Tmpl, pPop, look, pPop > 0 && g.R.Intn(2) == 0))
				default:
					c.Entries = append(c.Entries, g.populate(n.Tmpl, pPop, look, true))
				}
			}
			out[i] = c
		case "cmp":
			out[i] = Node{K: "cmp", Items: g.populate(n.Items, pPop, look, false)}
		}
	}
	return out
}

func tagsOf(ns []Node, acc *[]string) {
	for _, n := range ns {
		switch n.K {
		case "kv":
			*acc = append(*acc, n.Tag.String())
		case "grp":
			*acc = append(*acc, n.Tag.String())
			tagsOf(n.Tmpl, acc)
		case "cmp":
			tagsOf(n.Items, acc)
		}
	}
}

// RandomCase: random template (depth <= 3) and population, all value types and routes.
func (g *Gen) RandomCase(lookalike bool, withTrailer bool) *Case {
	g.used = map[string]bool{}
	t := stdTags
	if g.R.Intn(4) == 0 { // configurable framing tags
		alts := []Tags{
			{S2B("1008"), S2B("1009"), S2B("1035"), S2B("1010")},
			{S2B("8"), S2B("9"), S2B("35"), S2B("93")},
			{S2B("1"), S2B("2"), S2B("3"), S2B("4")},
			// framing tags that are decimal suffixes / prefixes of one another
			{S2B("135"), S2B("9"), S2B("35"), S2B("10")},
			{S2B("18"), S2B("9"), S2B("8"), S2B("10")},
			{S2B("8"), S2B("935"), S2B("35"), S2B("10")},
			{S2B("8"), S2B("9"), S2B("35"), S2B("135")},
			{S2B("35"), S2B("359"), S2B("5"), S2B("3510")},
			{S2B("8"), S2B("98"), S2B("9"), S2B("89")},
			{S2B("110"), S2B("10"), S2B("1"), S2B("0")},
			// long tag numbers (five to nine digits) for each of the framing fields
			{S2B("10008"), S2B("10009"), S2B("10035"), S2B("10010")},
			{S2B("8"), S2B("9"), S2B("35"), S2B("100010")},
			{S2B("8"), S2B("9"), S2B("35"), S2B("1000010")},
			{S2B("8"), S2B("9"), S2B("35"), S2B("100000010")},
			{S2B("123456789"), S2B("9"), S2B("35"), S2B("10")},
			{S2B("8"), S2B("987654321"), S2B("35"), S2B("10")},
			{S2B("8"), S2B("9"), S2B("3500035"), S2B("10")},
		}
		t = alts[g.R.Intn(len(alts))]
	}
	depth := g.R.Intn(4)
	var hdrT, trlT []Node
	if g.R.Intn(3) > 0 {
		hdrT = g.template(t, min(depth, 1), 3, false)
	}
	bodyT := []Node{}
	if g.R.Intn(8) > 0 {
		bodyT = g.template(t, depth, 4, false)
	}
	if withTrailer && g.R.Intn(2) == 0 {
		trlT = g.template(t, 0, 2, false)
	}
	var look []string
	if lookalike {
		tagsOf(hdrT, &look)
		tagsOf(bodyT, &look)
		tagsOf(trlT, &look)
		look = append(look, t.Bs.String(), t.Bl.String(), t.Mt.String(), t.Cs.String())
	}
	p := []float64{0.2, 0.5, 0.8, 1.0}[g.R.Intn(4)]
	m := Msg{Tags: t, BeginString: ToB(g.pick([]string{"FIX.4.4", "FIX.4.4", "FIX.4.2", "FIXT.1.1", "F", "F35=X", "9=5", "10=000", "FIX" + t.Mt.String() + "=A", t.Bl.String() + "=7"})),
		MsgType: ToB(g.pick([]string{"A", "0", "D", "8", "AE", "XY1"})),
		Header:  g.populate(hdrT, p, look, false), Body: g.populate(bodyT, p, look, false), Trailer: g.populate(trlT, p, look, false)}
	m.Norm()
	c := &Case{ID: g.id("g"), M: m, Lookalike: lookalike, Late: g.R.Intn(3) == 0}
	var all []string
	tagsOf(m.Header, &all)
	tagsOf(m.Body, &all)
	all = append(all, t.Bs.String(), t.Bl.String(), t.Mt.String(), t.Cs.String(), "9999")
	for _, s := range all {
		if g.R.Intn(3) == 0 || lookalike {
			c.Lookups = append(c.Lookups, S2B(s))
		}
	}
	return c
}

// ZoneOffsets are the fixed zones (seconds east of UTC) of ZonedCase.
var ZoneOffsets = []int{0, 3600, -18000, 19800, 32400, -12600, 45900, 7200, -28800}

// ZonedCase: a random case whose body ends in two to four time-typed fields that denote ONE instant in different zones (a UTC
// TransactTime next to a local-market timestamp taken from the same clock reading), so that they are serialized back to back. The
// canonical text of each is the clock reading in the value's own zone (what time.Time.Format prints for that value).
func (g *Gen) ZonedCase() *Case {
	c := g.RandomCase(false, false)
	inst := time.Date(1971+g.R.Intn(120), time.Month(1+g.R.Intn(12)), 1+g.R.Intn(28), g.R.Intn(24), g.R.Intn(60), g.R.Intn(60), g.R.Intn(1000)*1000000, time.UTC)
	offs := append([]int{}, ZoneOffsets...)
	g.R.Shuffle(len(offs), func(i, j int) { offs[i], offs[j] = offs[j], offs[i] })
	for i := 0; i < 2+g.R.Intn(3); i++ {
		c.M.Body = append(c.M.Body, Node{K: "kv", Tag: g.freshTag(c.M.Tags), Ty: "time", Pop: true, Via: []string{"new", "set"}[g.R.Intn(2)],
			Zone: offs[i], Txt: ToB(Canon("time", inst.In(time.FixedZone("", offs[i]))))})
	}
	c.M.Norm()
	c.ID += "/zoned"
	return c
}

func (g *Gen) pick(s []string) []byte { return []byte(s[g.R.Intn(len(s))]) }

// NeighbourCase: flat header / body of text fields whose values BEGIN with "<tag>=" of the field that follows or precedes them in
// the template (or of a framing field), all of them populated: a parser that resumes its search inside the previous field's
// value, or takes a value's beginning for the next field, reads another message.
func (g *Gen) NeighbourCase() *Case {
	g.used = map[string]bool{}
	t := stdTags
	mkList := func(n int) []Node {
		out := make([]Node, n)
		for i := range out {
			ty := []string{"string", "raw", "string"}[g.R.Intn(3)]
			out[i] = Node{K: "kv", Tag: g.freshTag(t), Ty: ty, Pop: true, Via: g.via(ty), Txt: ToB(g.randBytes(1+g.R.Intn(6), nil))}
		}
		word := func() string { return string(g.randBytes(1+g.R.Intn(5), nil)) }
		for i := range out {
			switch g.R.Intn(4) {
			case 0, 1:
				if i+1 < n {
					out[i].Txt = S2B(out[i+1].Tag.String() + "=" + word())
				} else {
					out[i].Txt = S2B(t.Cs.String() + "=" + fmt.Sprintf("%03d", g.R.Intn(256)))
				}
			case 2:
				if i > 0 {
					out[i].Txt = S2B(out[i-1].Tag.String() + "=" + word())
				} else {
					out[i].Txt = S2B(t.Mt.String() + "=" + word())
				}
			}
		}
		return out
	}
	m := Msg{Tags: t, BeginString: S2B("FIX.4.4"), MsgType: ToB(g.pick([]string{"A", "0", "D"}))}
	if g.R.Intn(2) == 0 {
		m.Header = mkList(2 + g.R.Intn(2))
	}
	m.Body = mkList(2 + g.R.Intn(5))
	// the last field before the CheckSum field ends in the CheckSum tag's text followed by 1..7 characters (the look-alike sits at a
	// small fixed distance from the end of the message, where a parser that looks for the trailer "near the end" would find it)
	if g.R.Intn(2) == 0 {
		last := &m.Body[len(m.Body)-1]
		last.Txt = S2B(string(g.randBytes(1+g.R.Intn(4), nil)) + t.Cs.String() + "=" + "ABCDEFG"[:1+g.R.Intn(7)])
	}
	m.Norm()
	c := &Case{ID: g.id("nb"), M: m, Lookalike: true}
	var all []string
	tagsOf(m.Header, &all)
	tagsOf(m.Body, &all)
	all = append(all, t.Bs.String(), t.Bl.String(), t.Mt.String(), t.Cs.String())
	for _, s := range all {
		c.Lookups = append(c.Lookups, S2B(s))
	}
	return c
}

// SizedCase: one string field whose length puts the body length exactly on target.
func (g *Gen) SizedCase(target int) *Case {
	g.used = map[string]bool{}
	t := stdTags
	// body = "35=0|" (5) + "58=" + n + "|" (4+n)  => n = target - 9
	n := target - 9
	m := Msg{Tags: t, BeginString: S2B("FIX.4.4"), MsgType: S2B("0")}
	if n >= 1 {
		m.Body = []Node{{K: "kv", Tag: S2B("58"), Ty: "string", Pop: true, Txt: ToB(g.randBytes(n, nil)), Via: "set"}}
	}
	m.Norm()
	return &Case{ID: g.id(fmt.Sprintf("len%d_", target)), M: m}
}

// WrapCase searches a one-character variation until the checksum falls below limit.
func (g *Gen) WrapCase(limit int) *Case {
	for {
		c := g.SizedCase(10 + g.R.Intn(60))
		msg, err := Build(&c.M, false)
		if err != nil {
			continue
		}
		w, err := msg.ToBytes()
		if err != nil {
			continue
		}
		sum := 0
		for _, b := range w[:len(w)-7] {
			sum += int(b)
		}
		if sum%256 < limit {
			c.ID = g.id(fmt.Sprintf("wrap%d_", limit))
			return c
		}
	}
}

// ValueOpsCase: a random operation sequence on one value type.
func (g *Gen) ValueOps(ty string, n int) (string, []ValOp) {
	ops := make([]ValOp, 0, n)
	var last B
	for i := 0; i < n; i++ {
		choices := []string{"new", "set", "parse", "setnil", "parsenil", "zero"}
		if ty == "raw" {
			choices = []string{"new", "set", "parse", "parsenil", "zero"}
		}
		if ty == "bool" {
			choices = []string{"set", "parse", "setnil", "parsenil", "zero"}
		}
		op := choices[g.R.Intn(len(choices))]
		vo := ValOp{Op: op, Txt: B{}}
		switch op {
		case "new", "set", "parse":
			vo.Txt = ToB(g.randValue(ty, nil))
			// the same text again (after a clear, after another text, straight away): one time in three
			if last != nil && g.R.Intn(3) == 0 {
				vo.Txt = last
			}
			last = vo.Txt
		}
		ops = append(ops, vo)
	}
	return g.id("v"), ops
}

// EmptyValueCase: populated-but-empty string/raw values (must simply be absent from the wire).
func (g *Gen) EmptyValueCase() *Case {
	g.used = map[string]bool{}
	t := stdTags
	mk := func(ty, via string, empty bool) Node {
		n := Node{K: "kv", Tag: g.freshTag(t), Ty: ty, Pop: true, Via: via, Txt: B{}}
		if !empty {
			n.Txt = ToB(g.randValue(ty, nil))
		}
		return n
	}
	var body []Node
	for i := 0; i < 1+g.R.Intn(4); i++ {
		ty := []string{"string", "raw"}[g.R.Intn(2)]
		via := []string{"new", "set", "parse"}[g.R.Intn(3)]
		body = append(body, mk(ty, via, g.R.Intn(2) == 0))
	}
	m := Msg{Tags: t, BeginString: S2B("FIX.4.4"), MsgType: S2B("0"), Body: body}
	m.Norm()
	return &Case{ID: g.id("e"), M: m, NoParse: true}
}

// Frame wraps a payload (the bytes between the BodyLength field and the CheckSum field)
// in a correct BeginString/BodyLength/CheckSum, computed here independently of the library.
func Frame(t Tags, beginString string, payload []byte) []byte {
	pre := []byte(t.Bs.String() + "=" + beginString + "\x01" + t.Bl.String() + "=" + strconv.Itoa(len(payload)) + "\x01")
	pre = append(pre, payload...)
	sum := 0
	for _, b := range pre {
		sum += int(b)
	}
	return append(pre, []byte(fmt.Sprintf("%s=%03d\x01", t.Cs.String(), sum%256))...)
}

// Reframe recomputes BodyLength and CheckSum of a message laid out as BeginString, BodyLength, ..., CheckSum.
// Bytes that are not laid out like that are returned unchanged.
func Reframe(t Tags, wire []byte) []byte {
	pre := t.Bs.String() + "="
	if len(wire) == 0 || wire[len(wire)-1] != 1 || !strings.HasPrefix(string(wire), pre) {
		return wire
	}
	i1 := bytes.IndexByte(wire, 1)
	i2 := bytes.IndexByte(wire[i1+1:], 1)
	if i2 < 0 {
		return wire
	}
	i2 += i1 + 1
	j := bytes.LastIndexByte(wire[:len(wire)-1], 1)
	if j < i2 || !strings.HasPrefix(string(wire[i1+1:]), t.Bl.String()+"=") || !strings.HasPrefix(string(wire[j+1:]), t.Cs.String()+"=") {
		return wire
	}
	return Frame(t, string(wire[len(pre):i1]), wire[i2+1:j+1])
}

// LooseEntryCase: group entries of which nothing, or not the first field, is populated (framing only: such entries are outside
// the domain in which parsing inverts serialization, but C01 quantifies over every population).
func (g *Gen) LooseEntryCase() *Case {
	g.loose = true
	c := g.RandomCase(false, g.R.Intn(3) == 0)
	g.loose = false
	c.ID = g.id("n")
	c.NoParse, c.FrameOnly, c.Lookups = true, true, nil
	return c
}

var rawTemplates = func() []Msg {
	kv := func(tag, ty string) Node { return Node{K: "kv", Tag: S2B(tag), Ty: ty, Txt: B{}} }
	plain := Msg{Tags: stdTags, BeginString: S2B("FIX.4.4"), MsgType: S2B("0"),
		Header: []Node{kv("49", "string"), kv("34", "int")}, Body: []Node{kv("112", "string"), kv("7", "int")}}
	grp := Msg{Tags: stdTags, BeginString: S2B("FIX.4.4"), MsgType: S2B("A"),
		Header: []Node{kv("34", "int")},
		Body:   []Node{kv("98", "string"), {K: "grp", Tag: S2B("384"), Tmpl: []Node{kv("372", "string"), kv("385", "string")}}, kv("553", "string")}}
	nested := Msg{Tags: stdTags, BeginString: S2B("FIX.4.4"), MsgType: S2B("V"),
		Body: []Node{{K: "grp", Tag: S2B("146"), Tmpl: []Node{kv("55", "string"),
			{K: "grp", Tag: S2B("454"), Tmpl: []Node{kv("455", "string"), kv("456", "int")}},
			{K: "cmp", Items: []Node{kv("460", "int"), kv("461", "float")}}}}, kv("1", "time")}}
	typesT := Msg{Tags: stdTags, BeginString: S2B("FIX.4.4"), MsgType: S2B("A"),
		Header: []Node{kv("34", "int"), kv("43", "bool"), kv("97", "bool")},
		Body: []Node{kv("98", "string"), kv("141", "bool"), kv("464", "bool"), kv("383", "uint"), kv("96", "raw"), kv("44", "float"), kv("52", "time"),
			{K: "grp", Tag: S2B("384"), Tmpl: []Node{kv("372", "string"), kv("385", "bool")}}}}
	out := []Msg{plain, grp, nested, typesT}
	for i := range out {
		out[i].Norm()
	}
	return out
}()

// RawInputs: one batch of arbitrary byte strings against the raw templates.
func (g *Gen) RawInputs() []*RawObs {
	var outs []*RawObs
	tm := &rawTemplates[g.R.Intn(len(rawTemplates))]
	var in []byte
	alpha := []byte{1, '=', '1', '3', '4', '8', '9', '0', 'A', '5', '6'}
	small := func(n int) []byte {
		b := make([]byte, n)
		for i := range b {
			b[i] = alpha[g.R.Intn(len(alpha))]
		}
		return b
	}
	tagsIn := []string{"8", "9", "35", "10", "34", "49", "112", "7", "98", "384", "372", "385", "553", "146", "55", "454", "455", "456", "460", "461", "1",
		"43", "97", "141", "464", "383", "96", "44", "52"}
	fieldy := func(n int) []byte {
		var b []byte
		for i := 0; i < n; i++ {
			switch g.R.Intn(8) {
			case 0:
				b = append(b, small(1+g.R.Intn(4))...)
			case 1:
				b = append(b, 1)
			default:
				b = append(b, []byte(tagsIn[g.R.Intn(len(tagsIn))])...)
				if g.R.Intn(8) > 0 {
					b = append(b, '=')
				}
				if g.R.Intn(6) > 0 {
					if g.R.Intn(6) == 0 { // timestamps of every precision a peer may use, and near misses
						b = append(b, []byte("20210208-15:51:43"+[]string{"", ".1", ".123", ".1234", ".123456", ".123456789", ".1234567890", ".123456789012",
							".123456789012345", ".12345678901234567890", ".", ".abc", "Z", "+01:00"}[g.R.Intn(14)])...)
					} else if g.R.Intn(5) == 0 { // numbers a peer can put into count / length / sequence fields
						b = append(b, []byte([]string{"-1", "-2147483648", "9223372036854775807", "4611686018427387904", "99999999999999999999",
							"+2", "00", "1e3", "0x10", "-0", "2147483648", "-9223372036854775808", "4294967296"}[g.R.Intn(13)])...)
					} else {
						b = append(b, []byte(strconv.Itoa(g.R.Intn(4)))...)
					}
				}
				if g.R.Intn(8) > 0 {
					b = append(b, 1)
				}
			}
		}
		return b
	}
	// the fields of a correctly framed message in another order (the framing fields anywhere: CheckSum first, BodyLength last,
	// one of them twice): a length check that only adds up field lengths is satisfied by every permutation
	reorder := func() []byte {
		p := append([]byte("35="+tm.MsgType.String()+"\x01"), fieldy(g.R.Intn(6))...)
		fr := Frame(tm.Tags, "FIX.4.4", p)
		fs := bytes.SplitAfter(fr, []byte{1})
		if len(fs) > 0 && len(fs[len(fs)-1]) == 0 {
			fs = fs[:len(fs)-1]
		}
		switch g.R.Intn(6) {
		case 4, 5: // the CheckSum field stays last, the fields before it change places (BeginString / BodyLength are no longer
			// the first two): the sum of the bytes before the CheckSum field does not depend on their order
			head := fs[:len(fs)-1]
			if len(head) >= 3 {
				k := 1 + g.R.Intn(len(head)-1)
				rot := append(append([][]byte{}, head[k:]...), head[:k]...)
				fs = append(rot, fs[len(fs)-1])
			}
		case 0: // CheckSum first
			fs = append([][]byte{fs[len(fs)-1]}, fs[:len(fs)-1]...)
		case 1: // rotation
			k := g.R.Intn(len(fs))
			fs = append(append([][]byte{}, fs[k:]...), fs[:k]...)
		case 2: // a framing field twice
			k := []int{0, 1, len(fs) - 1}[g.R.Intn(3)]
			at := g.R.Intn(len(fs) + 1)
			fs = append(append(append([][]byte{}, fs[:at]...), fs[k]), fs[at:]...)
		default:
			g.R.Shuffle(len(fs), func(i, j int) { fs[i], fs[j] = fs[j], fs[i] })
		}
		return bytes.Join(fs, nil)
	}
	switch g.R.Intn(9) {
	case 6, 7, 8:
		in = reorder()
	case 0:
		in = small(g.R.Intn(12))
	case 1:
		in = make([]byte, g.R.Intn(64))
		g.R.Read(in)
	case 2:
		in = Frame(tm.Tags, "FIX.4.4", small(g.R.Intn(24)))
	case 3:
		in = Frame(tm.Tags, "FIX.4.4", fieldy(1+g.R.Intn(10)))
	case 4:
		in = fieldy(1 + g.R.Intn(10))
	default:
		p := append([]byte("35="+tm.MsgType.String()+"\x01"), fieldy(1+g.R.Intn(12))...)
		in = Frame(tm.Tags, "FIX.4.4", p)
		if g.R.Intn(3) == 0 && len(in) > 0 { // truncate / mutate
			in = in[:g.R.Intn(len(in))]
		}
	}
	// a correctly framed message whose time-typed field carries a timestamp of some precision (the two templates with such a
	// field: tag 1 inside a group entry's sibling, tag 52 in the body)
	if g.R.Intn(6) == 0 {
		tm = &rawTemplates[2+g.R.Intn(2)]
		tag := map[string]string{"V": "1", "A": "52"}[tm.MsgType.String()]
		val := "20210208-15:51:43" + []string{"", ".1", ".123", ".1234", ".123456", ".123456789", ".1234567890", ".123456789012",
			".123456789012345", ".12345678901234567890", ".", ".abc", "Z", "+01:00"}[g.R.Intn(14)]
		in = Frame(tm.Tags, "FIX.4.4", []byte("35="+tm.MsgType.String()+"\x01"+tag+"="+val+"\x01"))
	}
	id := g.id("r")
	lk := tagsIn[g.R.Intn(len(tagsIn))]
	for _, op := range []string{"strict", "nonstrict", "lookup"} {
		outs = append(outs, RunRaw(id+"/"+op, tm, op, in, lk, 2*time.Second))
	}
	return outs
}

// RandValue exposes the value generator (canonical text of a random value of type ty).
func (g *Gen) RandValue(ty string) []byte { return g.randValue(ty, nil) }
