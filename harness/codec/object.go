package codec

import (
	"fmt"
	"math/rand"
	"reflect"
	"strings"
	"time"

	"github.com/b2broker/simplefix-go/fix"
)

// ---- real message objects (generated tests/fix44 types) as codec cases ----

func tyOf(v fix.Value) string {
	switch v.(type) {
	case *fix.String:
		return "string"
	case *fix.Int:
		return "int"
	case *fix.Uint:
		return "uint"
	case *fix.Float:
		return "float"
	case *fix.Time:
		return "time"
	case *fix.Bool:
		return "bool"
	case *fix.Raw:
		return "raw"
	}
	return "?"
}

// TreeOfItems reads a real item list into tree form from the OBJECTS (not from bytes).
func TreeOfItems(items fix.Items) ([]Node, error) {
	out := make([]Node, 0, len(items))
	for _, it := range items {
		switch t := it.(type) {
		case *fix.KeyValue:
			ty := tyOf(t.Value)
			pop, txt, err := valueText(ty, t.Value)
			if err != nil {
				return nil, err
			}
			out = append(out, Node{K: "kv", Tag: S2B(t.Key), Ty: ty, Pop: pop, Txt: ToB(txt), Via: "set"})
		case *fix.Group:
			tm, err := TreeOfItems(t.AsTemplate())
			if err != nil {
				return nil, err
			}
			n := Node{K: "grp", Tag: S2B(t.NoTag()), Tmpl: tm, Entries: [][]Node{}}
			for _, e := range t.Entries() {
				en, err := TreeOfItems(e)
				if err != nil {
					return nil, err
				}
				n.Entries = append(n.Entries, en)
			}
			out = append(out, n)
		case *fix.Component:
			c, err := TreeOfItems(t.Items())
			if err != nil {
				return nil, err
			}
			out = append(out, Node{K: "cmp", Items: c})
		default:
			return nil, fmt.Errorf("unexpected item %T", it)
		}
	}
	return out, nil
}

// TreeOfMessage reads a real message object into a Msg tree.
func TreeOfMessage(m *fix.Message) (*Msg, error) {
	items := m.Items()
	mt, ok := items[2].(*fix.KeyValue)
	if !ok {
		return nil, fmt.Errorf("third item is not the MsgType field")
	}
	out := &Msg{Tags: Tags{Bs: S2B(m.BeginStringTag()), Bl: S2B(m.BodyLengthTag()), Mt: S2B(mt.Key), Cs: S2B(m.CheckSumTag())},
		BeginString: S2B(m.BeginString().Value.String()), MsgType: S2B(m.MsgType())}
	var err error
	if out.Header, err = TreeOfItems(m.Header().Items()); err != nil {
		return nil, err
	}
	if out.Body, err = TreeOfItems(m.Body()); err != nil {
		return nil, err
	}
	if out.Trailer, err = TreeOfItems(m.Trailer().Items()); err != nil {
		return nil, err
	}
	out.Norm()
	return out, nil
}

func (g *Gen) sampleTyped(ty string) interface{} {
	tv, err := typed(ty, g.randValue(ty, nil))
	if err != nil {
		panic(err)
	}
	return tv
}

// populateItems fills real items in place through the library's value setters / AsTemplate / AddEntry.
func (g *Gen) populateItems(items fix.Items, p float64, first bool, depth int) {
	for i, it := range items {
		force := first && i == 0
		switch t := it.(type) {
		case *fix.KeyValue:
			if force || g.R.Float64() < p {
				ty := tyOf(t.Value)
				if ty != "?" {
					_ = t.Value.Set(g.sampleTyped(ty))
				}
			}
		case *fix.Group:
			if depth < 3 && (force || g.R.Float64() < p) {
				n := 1 + g.R.Intn(2)
				for e := 0; e < n; e++ {
					entry := t.AsTemplate()
					g.populateItems(entry, p, true, depth+1)
					t.AddEntry(entry)
				}
			}
		case *fix.Component:
			g.populateItems(t.Items(), p, force, depth)
		}
	}
}

// callSetters calls generated Set<Field>(v) methods of obj (reflection) for a random subset of basic-typed fields.
func (g *Gen) callSetters(obj interface{}, p float64) int {
	v := reflect.ValueOf(obj)
	t := v.Type()
	n := 0
	for i := 0; i < t.NumMethod(); i++ {
		m := t.Method(i)
		if !strings.HasPrefix(m.Name, "Set") || strings.HasPrefix(m.Name, "SetField") || m.Type.NumIn() != 2 {
			continue
		}
		if m.Name == "SetHeader" || m.Name == "SetBody" || m.Name == "SetTrailer" {
			continue
		}
		if g.R.Float64() >= p {
			continue
		}
		var arg reflect.Value
		switch m.Type.In(1) {
		case reflect.TypeOf(""):
			arg = reflect.ValueOf(string(g.randValue("string", nil)))
		case reflect.TypeOf(0):
			arg = reflect.ValueOf(g.sampleTyped("int"))
		case reflect.TypeOf(0.0):
			arg = reflect.ValueOf(g.sampleTyped("float"))
		case reflect.TypeOf(true):
			arg = reflect.ValueOf(g.R.Intn(2) == 0)
		case reflect.TypeOf(time.Time{}):
			arg = reflect.ValueOf(g.sampleTyped("time"))
		case reflect.TypeOf([]byte{}):
			arg = reflect.ValueOf(g.sampleTyped("raw"))
		default:
			continue
		}
		v.Method(i).Call([]reflect.Value{arg})
		n++
	}
	return n
}

// ObjectCase builds one case from a real generated message type.
func (g *Gen) ObjectCase(name string, newMsg func() (interface{}, *fix.Message), seed int64) (*CaseObs, error) {
	g.R = rand.New(rand.NewSource(seed))
	obj, msg := newMsg()
	p := []float64{0.1, 0.3, 0.6, 1.0}[g.R.Intn(4)]
	g.populateItems(msg.Header().Items(), p, false, 0)
	g.populateItems(msg.Body(), p, false, 0)
	g.callSetters(obj, p)
	tree, err := TreeOfMessage(msg)
	if err != nil {
		return nil, err
	}
	o := &CaseObs{K: "case", ID: fmt.Sprintf("fix44-%s-%d", name, seed), M: *tree, Target: 0, SameTemplate: true, Wire: B{}, Lookups: []LookupObs{}}
	o.Parse, o.Nonstrict = emptyParse(tree), emptyParse(tree)
	var wire []byte
	err, pn := safely(func() error {
		var e error
		wire, e = msg.ToBytes()
		return e
	})
	if pn != "" || err != nil {
		o.SerErr = fmt.Sprint(err, pn)
		return o, nil
	}
	o.SerOk = true
	o.Wire = ToB(wire)
	// C02's precondition: a tag number occupies one position in the template (real FIX messages reuse components,
	// e.g. Instrument in the body and in a group entry: those are serialization-only cases)
	var all []string
	tagsOf(tree.Header, &all)
	tagsOf(tree.Body, &all)
	tagsOf(tree.Trailer, &all)
	seen := map[string]bool{tree.Tags.Bs.String(): true, tree.Tags.Bl.String(): true, tree.Tags.Mt.String(): true, tree.Tags.Cs.String(): true}
	for _, tg := range all {
		if seen[tg] {
			return o, nil
		}
		seen[tg] = true
	}
	o.Parsed = true
	for _, strict := range []bool{true, false} {
		_, target := newMsg()
		po := emptyParse(tree)
		err, pn := safely(func() error {
			if strict {
				return encodingUnmarshal(target, wire, true)
			}
			return encodingUnmarshal(target, wire, false)
		})
		if pn != "" {
			po.Err = "panic: " + pn
		} else if err != nil {
			po.Err = err.Error()
		} else if d, derr := TreeOfMessage(target); derr != nil {
			po.Err = "dump: " + derr.Error()
		} else {
			po.M = d
			if rs, e := target.ToBytes(); e == nil {
				po.Ok = true
				po.Reser = ToB(rs)
			} else {
				po.Err = e.Error()
			}
		}
		if strict {
			o.Parse = po
		} else {
			o.Nonstrict = po
		}
	}
	return o, nil
}
