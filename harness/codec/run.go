package codec

import (
	"bytes"
	"strconv"
	"encoding/json"
	"fmt"
	"sync"
	"time"

	"github.com/b2broker/simplefix-go/fix"
	"github.com/b2broker/simplefix-go/fix/encoding"
)

// Case is the input of one codec observation.
type Case struct {
	ID        string `json:"id"`
	M         Msg    `json:"m"`
	Target    *Msg   `json:"target,omitempty"` // template parsed into (nil: the case's own)
	Lookalike bool   `json:"lookalike"`
	Lookups   []B    `json:"lookups,omitempty"`
	NoParse   bool   `json:"noparse,omitempty"`
	Late      bool   `json:"late,omitempty"` // group entries are added to their group before they are populated
	FrameOnly bool   `json:"frameOnly,omitempty"` // outside the domain of the content checks (entries with nothing / no first field populated): framing only
}

type ParseObs struct {
	Ok    bool   `json:"ok"`
	Err   string `json:"err"`
	M     interface{} `json:"m"` // *Msg when ok, 0 otherwise
	Reser B           `json:"reser"`
}

type LookupObs struct {
	Tag   B    `json:"tag"`
	Found bool `json:"found"`
	Val   B    `json:"val"`
}

// CaseObs is the record validated by FixWireTrace (k = "case").
type CaseObs struct {
	K            string      `json:"k"`
	ID           string      `json:"id"`
	M            Msg         `json:"m"`
	Target       interface{} `json:"target"` // Msg when it differs from M, 0 otherwise
	SameTemplate bool        `json:"sameTemplate"`
	Lookalike    bool        `json:"lookalike"`
	SerOk        bool        `json:"serOk"`
	SerErr       string      `json:"serErr"`
	Wire         B           `json:"wire"`
	Parsed       bool        `json:"parsed"`
	Parse        ParseObs    `json:"parse"`
	Nonstrict    ParseObs    `json:"nonstrict"`
	Lookups      []LookupObs `json:"lookups"`
	Panic        string      `json:"panic"`
	StrictRT     bool        `json:"strictRT"` // compare the parse with the message itself even if the wire is not Wire(m)
	FrameOnly    bool        `json:"frameOnly"`
}

func emptyParse(tmpl *Msg) ParseObs {
	return ParseObs{M: 0, Reser: B{}}
}

// safely runs a library call under recover() and a deadline: a call that panics or does not return is reported, not suffered
// (a goroutine that never returns cannot be stopped; Hangs counts them and the generators stop after a few).
func safely(f func() error) (err error, panicked string) {
	type res struct {
		err error
		pn  string
	}
	ch := make(chan res, 1)
	go func() {
		var r res
		defer func() {
			if x := recover(); x != nil {
				r.pn = fmt.Sprint(x)
			}
			ch <- r
		}()
		r.err = f()
	}()
	select {
	case r := <-ch:
		return r.err, r.pn
	case <-time.After(SafelyDeadline):
		Hangs++
		return nil, "the call did not return within " + SafelyDeadline.String()
	}
}

// SafelyDeadline bounds every library call made by the codec drivers.
var SafelyDeadline = 5 * time.Second

func parseInto(tmpl *Msg, wire []byte, strict bool) ParseObs {
	po := emptyParse(tmpl)
	target, err := Build(tmpl, true)
	if err != nil {
		po.Err = "harness: " + err.Error()
		return po
	}
	// the bytes are parsed from a receive buffer of the caller's, which the caller reuses as soon as the call has returned (here:
	// overwrites): what was populated by parsing is the message's, not the buffer's (C17: "populated ... by parsing ... the
	// canonical text of its value")
	rx := append([]byte{}, wire...)
	err, pn := safely(func() error {
		if strict {
			return encoding.Unmarshal(target, rx)
		}
		return encoding.DefaultUnmarshaller{Strict: false, Validator: encoding.DefaultValidator{}}.Unmarshal(target, rx)
	})
	for i := range rx {
		rx[i] = 'X'
	}
	if pn != "" {
		po.Err = "panic: " + pn
		return po
	}
	if err != nil {
		po.Err = err.Error()
		return po
	}
	d, err := Dump(tmpl, target)
	if err != nil {
		po.Err = "dump: " + err.Error()
		return po
	}
	po.M = d
	var rs []byte
	err, pn = safely(func() error {
		var e error
		rs, e = target.ToBytes()
		return e
	})
	if err != nil || pn != "" {
		po.Err = fmt.Sprintf("reserialize: %v %s", err, pn)
		return po
	}
	po.Ok = true
	po.Reser = ToB(rs)
	return po
}

// RunCase executes one case against the real library.
func RunCase(c *Case) (*CaseObs, error) {
	c.M.Norm()
	o := &CaseObs{K: "case", ID: c.ID, M: c.M, Lookalike: c.Lookalike, Wire: B{}, Lookups: []LookupObs{}, FrameOnly: c.FrameOnly}
	tgt := &c.M
	o.SameTemplate = true
	if c.Target != nil {
		c.Target.Norm()
		tgt = c.Target
		o.SameTemplate = false
	}
	o.Target = 0
	if !o.SameTemplate {
		o.Target = *tgt
	}
	o.Parse, o.Nonstrict = emptyParse(tgt), emptyParse(tgt)

	LateEntries = c.Late
	msg, err := Build(&c.M, false)
	LateEntries = false
	if err != nil {
		return nil, fmt.Errorf("case %s: %v", c.ID, err)
	}
	var wire []byte
	err, pn := safely(func() error {
		var e error
		wire, e = msg.ToBytes()
		return e
	})
	if pn != "" {
		o.Panic = pn
		o.SerErr = "panic: " + pn
		return o, nil
	}
	if err != nil {
		o.SerErr = err.Error()
		return o, nil
	}
	o.SerOk = true
	o.Wire = ToB(wire)

	if !c.NoParse {
		o.Parsed = true
		o.Parse = parseInto(tgt, wire, true)
		o.Nonstrict = parseInto(tgt, wire, false)
	}
	for _, tag := range c.Lookups {
		lo := LookupObs{Tag: tag, Val: B{}}
		var v []byte
		err, pn := safely(func() error {
			var e error
			v, e = fix.ValueByTag(wire, tag.String())
			return e
		})
		if pn != "" {
			o.Panic = "ValueByTag: " + pn
		}
		if err == nil && pn == "" {
			lo.Found = true
			lo.Val = ToB(v)
		}
		o.Lookups = append(o.Lookups, lo)
	}
	return o, nil
}

// RunSharedComponent: several message objects that share ONE header component object (the API hands components around by pointer:
// SetHeader, SetInstrument, ...) are serialized at the same time, each by a goroutine of its own - what several sessions of one
// process do with a block they all carry.  Serialization only reads the component; every output must be the message's bytes.
func RunSharedComponent(c *Case, k, iters int) []*CaseObs {
	c.M.Norm()
	first, err := Build(&c.M, false)
	if err != nil {
		return nil
	}
	want, err := first.ToBytes()
	if err != nil {
		return nil
	}
	msgs := []*fix.Message{first}
	for i := 1; i < k; i++ {
		m, err := Build(&c.M, false)
		if err != nil {
			return nil
		}
		m.SetHeader(first.Header())
		msgs = append(msgs, m)
	}
	mk := func(id string, w []byte) *CaseObs {
		o := &CaseObs{K: "case", ID: id, M: c.M, Target: 0, SameTemplate: true, SerOk: true, Wire: ToB(w), Lookups: []LookupObs{}}
		o.Parse, o.Nonstrict = emptyParse(&c.M), emptyParse(&c.M)
		return o
	}
	out := []*CaseObs{mk(c.ID+"/shared-component-sequential", want)}
	var mu sync.Mutex
	var wg sync.WaitGroup
	start := make(chan struct{})
	for gi, m := range msgs {
		wg.Add(1)
		go func(gi int, m *fix.Message) {
			defer wg.Done()
			<-start
			for it := 0; it < iters; it++ {
				var w []byte
				err, pn := safely(func() error {
					var e error
					w, e = m.ToBytes()
					return e
				})
				if err != nil || pn != "" || !bytes.Equal(w, want) {
					mu.Lock()
					if len(out) < 4 {
						o := mk(fmt.Sprintf("%s/shared-component-concurrent-%d-%d", c.ID, gi, it), w)
						if err != nil || pn != "" {
							o.SerOk, o.SerErr, o.Wire = false, fmt.Sprintf("%v %s", err, pn), B{}
						}
						out = append(out, o)
					}
					mu.Unlock()
				}
			}
		}(gi, m)
	}
	close(start)
	wg.Wait()
	return out
}

// RunSharedParser: ONE unmarshaller object (encoding.NewDefaultUnmarshaller, what Session.SetUnmarshaller lets an application
// install in all its sessions) parses different valid messages at the same time, one goroutine per message.  Every parse is
// judged like a parse of its own; only deviating ones (and the first of each goroutine) are recorded.
func RunSharedParser(cases []*Case, base []*CaseObs, iters int) []*CaseObs {
	shared := encoding.NewDefaultUnmarshaller(true)
	var out []*CaseObs
	var mu sync.Mutex
	var wg sync.WaitGroup
	start := make(chan struct{})
	for gi := range cases {
		if !base[gi].SerOk || !wellFormedForParse(&cases[gi].M) {
			continue
		}
		wg.Add(1)
		go func(gi int) {
			defer wg.Done()
			tmpl, wire := &cases[gi].M, base[gi].Wire.Bytes()
			<-start
			for it := 0; it < iters; it++ {
				po := emptyParse(tmpl)
				target, err := Build(tmpl, true)
				if err != nil {
					return
				}
				err, pn := safely(func() error { return shared.Unmarshal(target, wire) })
				if err != nil || pn != "" {
					po.Err = fmt.Sprintf("%v %s", err, pn)
				} else if d, derr := Dump(tmpl, target); derr != nil {
					po.Err = "dump: " + derr.Error()
				} else {
					rs, rerr := target.ToBytes()
					if rerr != nil {
						po.Err = "reserialize: " + rerr.Error()
					} else {
						po.Ok, po.M, po.Reser = true, d, ToB(rs)
					}
				}
				deviates := !po.Ok || !bytes.Equal(po.Reser.Bytes(), wire)
				if it == 0 || deviates {
					o := *base[gi]
					o.ID = fmt.Sprintf("%s/shared-parser-%d", base[gi].ID, it)
					o.Parsed, o.Parse, o.Nonstrict, o.Lookups = true, po, po, []LookupObs{}
					mu.Lock()
					if it == 0 || len(out) < 40 {
						out = append(out, &o)
					}
					mu.Unlock()
					if deviates {
						return
					}
				}
			}
		}(gi)
	}
	close(start)
	wg.Wait()
	return out
}

// RunAgain serializes one message object twice and records the second result (framing only).
func RunAgain(c *Case) *CaseObs {
	c.M.Norm()
	o := &CaseObs{K: "case", ID: c.ID + "/again", M: c.M, Wire: B{}, Lookups: []LookupObs{}, FrameOnly: true, SameTemplate: true, Target: 0}
	o.Parse, o.Nonstrict = emptyParse(&c.M), emptyParse(&c.M)
	LateEntries = c.Late
	msg, err := Build(&c.M, false)
	LateEntries = false
	if err != nil {
		o.SerErr = err.Error()
		return o
	}
	var wire []byte
	err, pn := safely(func() error {
		if _, e := msg.ToBytes(); e != nil {
			return e
		}
		var e error
		wire, e = msg.ToBytes()
		return e
	})
	if pn != "" {
		o.Panic, o.SerErr = pn, "panic: "+pn
		return o
	}
	if err != nil {
		o.SerErr = err.Error()
		return o
	}
	o.SerOk, o.Wire = true, ToB(wire)
	return o
}

// ---------------------------------------------------------------------------------------
// damage: the whole one-byte neighbourhood of a valid message (C03)

type Accepted struct {
	Kind  string `json:"kind"`
	Pos   int    `json:"pos"`
	B     int    `json:"b"`
	Mode  string `json:"mode"`
	Bytes B      `json:"bytes"`
}

type DamageObs struct {
	K        string     `json:"k"`
	ID       string     `json:"id"`
	Tags     Tags       `json:"tags"`
	Wire     B          `json:"wire"`
	Tried    int        `json:"tried"`
	Accepted []Accepted `json:"accepted"`
	// Crashed: variants on which the parser panicked or did not return (mode carries what happened)
	Crashed []Accepted `json:"crashed"`
}

func accepts(tmpl *Msg, d []byte, strict bool) bool {
	ok, _ := acceptsOrCrashes(tmpl, d, strict)
	return ok
}

// acceptsOrCrashes: (accepted, panic text / "did not return" or "")
func acceptsOrCrashes(tmpl *Msg, d []byte, strict bool) (bool, string) {
	target, err := Build(tmpl, true)
	if err != nil {
		return false, ""
	}
	err, pn := safely(func() error {
		if strict {
			return encoding.Unmarshal(target, d)
		}
		return encoding.DefaultUnmarshaller{Strict: false, Validator: encoding.DefaultValidator{}}.Unmarshal(target, d)
	})
	return err == nil && pn == "", pn
}

// RunDamage tries every single-byte substitution, insertion, deletion and proper prefix.
// full=false restricts substitution/insertion values to a representative byte set.
func RunDamage(id string, tmpl *Msg, wire []byte, full bool) *DamageObs {
	// the base is a VALID message: BodyLength and CheckSum are recomputed here, independently of the library (when the library
	// frames correctly these are the bytes it produced; when it does not, that is C01's finding and must not stop this check)
	wire = Reframe(tmpl.Tags, wire)
	o := &DamageObs{K: "damage", ID: id, Tags: tmpl.Tags, Wire: ToB(wire), Accepted: []Accepted{}, Crashed: []Accepted{}}
	vals := make([]int, 0, 256)
	if full {
		for b := 0; b < 256; b++ {
			vals = append(vals, b)
		}
	} else {
		vals = []int{0, 1, 9, 10, 13, 32, 48, 49, 57, 61, 65, 124, 127, 128, 255}
	}
	// "reused": the damaged message is parsed into a message object that has just parsed the valid one (a receive loop that keeps
	// one object per message type): whatever the first parse left behind must not make up for what the damage removed
	reused, rerr := Build(tmpl, true)
	parser := encoding.NewDefaultUnmarshaller(true)
	rxbuf := make([]byte, len(wire)+16)
	try := func(kind string, pos, b int, d []byte) {
		for _, mode := range []string{"strict", "nonstrict"} {
			o.Tried++
			ok, pn := acceptsOrCrashes(tmpl, d, mode == "strict")
			if ok {
				if len(o.Accepted) < 40 {
					o.Accepted = append(o.Accepted, Accepted{kind, pos, b, mode, ToB(d)})
				}
			}
			if pn != "" && len(o.Crashed) < 20 {
				o.Crashed = append(o.Crashed, Accepted{kind, pos, b, mode + ": " + pn, ToB(d)})
			}
		}
		// one parser object and one receive buffer for a whole connection: the valid message is parsed from the buffer, the damaged
		// one is then copied into the same memory and parsed by the same parser
		if t1, e1 := Build(tmpl, true); e1 == nil && len(d) <= len(rxbuf) {
			o.Tried++
			err, pn := safely(func() error {
				copy(rxbuf, wire)
				if e := parser.Unmarshal(t1, rxbuf[:len(wire)]); e != nil {
					return e
				}
				copy(rxbuf, d)
				t2, e2 := Build(tmpl, true)
				if e2 != nil {
					return e2
				}
				return parser.Unmarshal(t2, rxbuf[:len(d)])
			})
			if err == nil && pn == "" && len(o.Accepted) < 40 {
				o.Accepted = append(o.Accepted, Accepted{kind, pos, b, "strict, same parser object and same receive buffer as the valid message before", ToB(d)})
			}
		}
		if rerr == nil {
			o.Tried++
			err, pn := safely(func() error {
				if e := encoding.Unmarshal(reused, wire); e != nil {
					return e
				}
				return encoding.Unmarshal(reused, d)
			})
			if err == nil && pn == "" && len(o.Accepted) < 40 {
				o.Accepted = append(o.Accepted, Accepted{kind, pos, b, "strict, into an object that parsed the valid message before", ToB(d)})
			}
		}
	}
	n := len(wire)
	for pos := 0; pos < n; pos++ {
		for _, b := range vals {
			if byte(b) == wire[pos] {
				continue
			}
			d := append([]byte{}, wire...)
			d[pos] = byte(b)
			try("subst", pos, b, d)
		}
	}
	for pos := 1; pos < n; pos++ { // interior insertion positions
		for _, b := range vals {
			d := make([]byte, 0, n+1)
			d = append(d, wire[:pos]...)
			d = append(d, byte(b))
			d = append(d, wire[pos:]...)
			try("insert", pos, b, d)
		}
	}
	for pos := 0; pos < n; pos++ {
		d := make([]byte, 0, n-1)
		d = append(d, wire[:pos]...)
		d = append(d, wire[pos+1:]...)
		try("delete", pos, int(wire[pos]), d)
	}
	for k := 0; k < n; k++ {
		try("prefix", k, 0, append([]byte{}, wire[:k]...))
	}
	return o
}

// ---------------------------------------------------------------------------------------
// raw: arbitrary byte strings (C11, soundness half of C03)

type RawObs struct {
	K       string `json:"k"`
	ID      string `json:"id"`
	Tags    Tags   `json:"tags"`
	Op      string `json:"op"` // strict | nonstrict | lookup
	Input   B      `json:"input"`
	Outcome string `json:"outcome"` // ok | err | panic | hang
	Detail  string `json:"detail"`
}

// RunRaw feeds one byte string to the decoder under recover() and a deadline.
func RunRaw(id string, tmpl *Msg, op string, input []byte, lookupTag string, deadline time.Duration) *RawObs {
	o := &RawObs{K: "raw", ID: id, Tags: tmpl.Tags, Op: op, Input: ToB(input)}
	type res struct {
		err error
		pn  string
	}
	ch := make(chan res, 1)
	go func() {
		err, pn := safely(func() error {
			switch op {
			case "lookup":
				_, e := fix.ValueByTag(input, lookupTag)
				return e
			case "strict":
				target, e := Build(tmpl, true)
				if e != nil {
					return e
				}
				return encoding.Unmarshal(target, input)
			default:
				target, e := Build(tmpl, true)
				if e != nil {
					return e
				}
				return encoding.DefaultUnmarshaller{Strict: false, Validator: encoding.DefaultValidator{}}.Unmarshal(target, input)
			}
		})
		ch <- res{err, pn}
	}()
	select {
	case r := <-ch:
		switch {
		case r.pn != "":
			o.Outcome, o.Detail = "panic", r.pn
		case r.err != nil:
			o.Outcome = "err"
		default:
			o.Outcome = "ok"
		}
	case <-time.After(deadline):
		o.Outcome, o.Detail = "hang", deadline.String()
		Hangs++
	}
	return o
}

// Hangs counts decoder calls that did not return (their goroutines cannot be stopped and keep a processor busy):
// generators stop feeding further inputs after a few of them.
var Hangs int

// ---------------------------------------------------------------------------------------
// value: operation sequences on one value object (Values state machine, C17)

type ValOp struct {
	Op  string `json:"op"` // new | set | parse | setnil | parsenil | zero
	Txt B      `json:"txt"`
}
type ValObs struct {
	Emitted bool `json:"emitted"`
	Txt     B    `json:"txt"`
	Null    bool `json:"null"`
}
type ValueObs struct {
	K   string   `json:"k"`
	ID  string   `json:"id"`
	Ty  string   `json:"ty"`
	Ops []ValOp  `json:"ops"`
	Obs []ValObs `json:"obs"`
}

// RunValueOps applies ops to a real value held by a KeyValue and records what the field emits.
func RunValueOps(id, ty string, ops []ValOp) (*ValueObs, error) {
	o := &ValueObs{K: "value", ID: id, Ty: ty, Ops: ops, Obs: []ValObs{}}
	kv := fix.NewKeyValue("7", emptyValue(ty))
	for i, op := range ops {
		if ops[i].Txt == nil {
			ops[i].Txt = B{}
		}
		txt := op.Txt.Bytes()
		var err error
		switch op.Op {
		case "zero":
			kv.Set(emptyValue(ty))
		case "new":
			n := Node{K: "kv", Ty: ty, Pop: true, Txt: op.Txt, Via: "new"}
			var v fix.Value
			v, err = MakeValue(&n)
			if err == nil {
				kv.Set(v)
			}
		case "set":
			var tv interface{}
			tv, err = typed(ty, txt)
			if err == nil {
				err = kv.Load().Set(tv)
			}
		case "parse":
			err = kv.FromBytes(txt)
		case "setnil":
			err = kv.Load().Set(nil)
		case "parsenil":
			err = kv.FromBytes(nil)
		default:
			err = fmt.Errorf("unknown op %s", op.Op)
		}
		if err != nil {
			return nil, fmt.Errorf("value case %s op %d: %v", id, i, err)
		}
		fb := kv.ToBytes()
		ob := ValObs{Txt: B{}, Null: kv.Load().IsNull()}
		if fb != nil {
			ob.Emitted = true
			// field text after "7="
			if len(fb) >= 2 && string(fb[:2]) == "7=" {
				ob.Txt = ToB(fb[2:])
			} else {
				ob.Txt = ToB(fb)
				ob.Emitted = false
			}
		}
		o.Obs = append(o.Obs, ob)
	}
	return o, nil
}

func encodingUnmarshal(target *fix.Message, wire []byte, strict bool) error {
	if strict {
		return encoding.Unmarshal(target, wire)
	}
	return encoding.DefaultUnmarshaller{Strict: false, Validator: encoding.DefaultValidator{}}.Unmarshal(target, wire)
}

// leafRefs collects pointers to the populated leaves of a tree together with the real KeyValue objects.
func leafPairs(ns []Node, items []fix.Item, out *[]struct {
	n  *Node
	kv *fix.KeyValue
}) {
	for i := range ns {
		if i >= len(items) {
			return
		}
		switch ns[i].K {
		case "kv":
			if kv, ok := items[i].(*fix.KeyValue); ok && ns[i].Pop {
				*out = append(*out, struct {
					n  *Node
					kv *fix.KeyValue
				}{&ns[i], kv})
			}
		case "grp":
			if g, ok := items[i].(*fix.Group); ok {
				for e := range ns[i].Entries {
					if e < len(g.Entries()) {
						leafPairs(ns[i].Entries[e], g.Entries()[e], out)
					}
				}
			}
		case "cmp":
			if c, ok := items[i].(*fix.Component); ok {
				leafPairs(ns[i].Items, c.Items(), out)
			}
		}
	}
}

// RunReuse: the application serializes a message, changes one populated value in place (a setter on the same
// object) and serializes again.  Both byte strings are recorded AFTER the second call, each with the tree it was
// produced from: the first one must still be the serialization of the first tree.
func RunReuse(c *Case, pick int, newTxt func(ty string) []byte) ([]*CaseObs, error) {
	c.M.Norm()
	msg, err := Build(&c.M, false)
	if err != nil {
		return nil, err
	}
	w1, err := msg.ToBytes()
	if err != nil {
		return nil, nil
	}
	tree1 := deepCopyMsg(&c.M)
	var pairs []struct {
		n  *Node
		kv *fix.KeyValue
	}
	leafPairs(c.M.Header, msg.Header().Items(), &pairs)
	leafPairs(c.M.Body, msg.Body(), &pairs)
	if len(pairs) == 0 {
		return nil, nil
	}
	p := pairs[pick%len(pairs)]
	txt := newTxt(p.n.Ty)
	tv, err := typed(p.n.Ty, txt)
	if err != nil {
		return nil, err
	}
	if err := p.kv.Value.Set(tv); err != nil {
		return nil, err
	}
	p.n.Txt = ToB(txt)
	w2, err := msg.ToBytes()
	if err != nil {
		return nil, nil
	}
	mk := func(id string, m *Msg, w []byte) *CaseObs {
		o := &CaseObs{K: "case", ID: id, M: *m, Target: 0, SameTemplate: true, SerOk: true, Wire: ToB(w), Lookups: []LookupObs{}}
		o.Parse, o.Nonstrict = emptyParse(m), emptyParse(m)
		return o
	}
	second := mk(c.ID+"/second", &c.M, w2)
	// the changed message must also round-trip: what is parsed from the second serialization is the changed message
	if wellFormedForParse(&c.M) {
		second.Parsed = true
		second.StrictRT = true
		second.Parse = parseInto(&c.M, w2, true)
		second.Nonstrict = parseInto(&c.M, w2, false)
	}
	first := mk(c.ID+"/first-bytes-after-second-call", tree1, w1)
	// "parsing the bytes produced by serializing a message yields the same values" (C02) - also when they are parsed after
	// the message object went on to produce other bytes
	if wellFormedForParse(tree1) {
		first.Parsed = true
		first.StrictRT = true
		first.Parse = parseInto(tree1, w1, true)
		first.Nonstrict = parseInto(tree1, w1, false)
	}
	out := []*CaseObs{first, second}
	// a message object that has been serialized is then used as the target of a parse (in-place writes into its fields, the
	// framing fields included); a FRESH message built afterwards must not be affected by what was written there
	if wellFormedForParse(tree1) {
		_, _ = safely(func() error { return encoding.Unmarshal(msg, w1) })
		if fresh, err := Build(&c.M, false); err == nil {
			var w3 []byte
			err, pn := safely(func() error {
				var e error
				w3, e = fresh.ToBytes()
				return e
			})
			if err == nil && pn == "" {
				out = append(out, mk(c.ID+"/fresh-message-after-parse-into-a-used-one", &c.M, w3))
			}
		}
		// ... and the used object itself is serialized again (serialize, parse into it, serialize): what it holds now is not
		// the properties' business (C02 parses into EMPTY messages), that its serialization is framed correctly is (C01)
		var w4 []byte
		err, pn := safely(func() error {
			var e error
			w4, e = msg.ToBytes()
			return e
		})
		if err == nil && pn == "" {
			o := mk(c.ID+"/reserialized-after-parse-into-itself", &c.M, w4)
			o.FrameOnly = true
			out = append(out, o)
		}
	}
	return out, nil
}

func deepCopyMsg(m *Msg) *Msg {
	b, _ := json.Marshal(m)
	var out Msg
	_ = json.Unmarshal(b, &out)
	out.Norm()
	return &out
}

// wellFormedForParse: C02's preconditions that a generated case may lack (empty populated values).
func wellFormedForParse(m *Msg) bool {
	ok := true
	var walk func(ns []Node)
	walk = func(ns []Node) {
		for i := range ns {
			switch ns[i].K {
			case "kv":
				if ns[i].Pop && len(ns[i].Txt) == 0 {
					ok = false
				}
			case "grp":
				for _, e := range ns[i].Entries {
					walk(e)
				}
			case "cmp":
				walk(ns[i].Items)
			}
		}
	}
	walk(m.Header)
	walk(m.Body)
	walk(m.Trailer)
	return ok
}

// RunDamageConcurrent: damaged variants are parsed while other goroutines serialize and parse the valid message
// (the encoder and the decoder share the checksum routine): still never accepted.
func RunDamageConcurrent(id string, tmpl *Msg, wire []byte, iters int) *DamageObs {
	wire = Reframe(tmpl.Tags, wire)
	o := &DamageObs{K: "damage", ID: id, Tags: tmpl.Tags, Wire: ToB(wire), Accepted: []Accepted{}, Crashed: []Accepted{}}
	var variants [][]byte
	for _, pos := range []int{len(wire) / 3, len(wire) / 2, 2 * len(wire) / 3} {
		if pos > 0 && pos < len(wire)-8 && wire[pos] != 1 && wire[pos] != '=' {
			d := append([]byte{}, wire...)
			d[pos] ^= 0x01
			if d[pos] == 1 {
				d[pos] = 'x'
			}
			variants = append(variants, d)
		}
	}
	if len(variants) == 0 {
		return o
	}
	var wg sync.WaitGroup
	var mu sync.Mutex
	stop := make(chan struct{})
	for g := 0; g < 3; g++ { // valid traffic: serialize and parse
		wg.Add(1)
		go func() {
			defer wg.Done()
			msg, err := Build(tmpl, false)
			if err != nil {
				return
			}
			for {
				select {
				case <-stop:
					return
				default:
				}
				_, _ = msg.ToBytes()
				_ = accepts(tmpl, wire, true)
			}
		}()
	}
	var dw sync.WaitGroup
	for g := 0; g < 3; g++ {
		dw.Add(1)
		go func(g int) {
			defer dw.Done()
			for i := 0; i < iters; i++ {
				d := variants[(i+g)%len(variants)]
				for _, mode := range []string{"strict", "nonstrict"} {
					ok := accepts(tmpl, d, mode == "strict")
					mu.Lock()
					o.Tried++
					if ok && len(o.Accepted) < 5 {
						o.Accepted = append(o.Accepted, Accepted{"subst-concurrent", 0, 0, mode, ToB(d)})
					}
					mu.Unlock()
				}
			}
		}(g)
	}
	dw.Wait()
	close(stop)
	wg.Wait()
	return o
}


// RunConcurrentFirstDecodes: several goroutines decode, at the same instant, valid messages whose tags the process has never seen
// (each goroutine its own template with fresh tag numbers), round after round: what a server does when several clients speak to it
// for the first time.  Every decode is recorded like a raw input (a valid message: "ok" is expected); a decoder that shares state
// between calls without synchronisation ends the process with a runtime error, which the checks report.
func RunConcurrentFirstDecodes(idPrefix string, rounds, width int, firstTag int) []*RawObs {
	var out []*RawObs
	next := firstTag
	for r := 0; r < rounds; r++ {
		type job struct {
			tm   *Msg
			wire []byte
		}
		jobs := make([]job, width)
		for k := range jobs {
			kv := func(ty string) Node {
				next++
				return Node{K: "kv", Tag: S2B(strconv.Itoa(next)), Ty: ty, Txt: S2B("1"), Pop: true, Via: "new"}
			}
			grpTag := func() B { next++; return S2B(strconv.Itoa(next)) }
			m := Msg{Tags: stdTags, BeginString: S2B("FIX.4.4"), MsgType: S2B("ZC"),
				Header: []Node{kv("int")},
				Body: []Node{kv("string"), {K: "grp", Tag: grpTag(), Tmpl: []Node{kv("string"), kv("int")},
					Entries: [][]Node{{kv("string"), kv("int")}}}, kv("string")}}
			// the entry's leaves must carry the template's tags
			g := &m.Body[1]
			for i := range g.Entries[0] {
				g.Entries[0][i].Tag = g.Tmpl[i].Tag
			}
			m.Norm()
			msg, err := Build(&m, false)
			if err != nil {
				continue
			}
			w, err := msg.ToBytes()
			if err != nil {
				continue
			}
			jobs[k] = job{&m, w}
		}
		start := make(chan struct{})
		res := make([]*RawObs, width*2)
		var wg sync.WaitGroup
		for k := range jobs {
			if jobs[k].tm == nil {
				continue
			}
			wg.Add(1)
			go func(k int) {
				defer wg.Done()
				<-start
				for j, op := range []string{"strict", "nonstrict"} {
					res[2*k+j] = RunRaw(fmt.Sprintf("%s%d-%d/%s", idPrefix, r, k, op), jobs[k].tm, op, jobs[k].wire, "", 5*time.Second)
				}
			}(k)
		}
		close(start)
		wg.Wait()
		for _, o := range res {
			if o != nil && (o.Outcome != "ok" || r == 0) { // keep the record small: every failure, and the first round as a sample
				out = append(out, o)
			}
		}
	}
	return out
}
