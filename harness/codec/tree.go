// Package codec binds the FixWire specification to the real fix / fix/encoding packages:
// it instantiates case trees (the JSON shape shared with the TLA+ modules) as real
// fix.Message objects built with the library's own constructs, runs the real encoder,
// decoder and tag lookup on them and records what they did.
package codec

import (
	"encoding/json"
	"fmt"
	"strconv"
	"time"

	"github.com/b2broker/simplefix-go/fix"
)

// B is a byte string that travels as a JSON array of integers (never a JSON string).
type B []int

func ToB(b []byte) B {
	r := make(B, len(b))
	for i, c := range b {
		r[i] = int(c)
	}
	return r
}
func S2B(s string) B { return ToB([]byte(s)) }
func (b B) Bytes() []byte {
	r := make([]byte, len(b))
	for i, c := range b {
		r[i] = byte(c)
	}
	return r
}
func (b B) String() string { return string(b.Bytes()) }

// Node is a template/population tree node.
type Node struct {
	K       string   `json:"k"`
	Tag     B        `json:"tag"`
	Ty      string   `json:"ty"`
	Pop     bool     `json:"pop"`
	Txt     B        `json:"txt"`
	Via     string   `json:"via"`
	Tmpl    []Node   `json:"tmpl"`
	Entries [][]Node `json:"entries"`
	Items   []Node   `json:"items"`
	// Zone (seconds east of UTC, harness side only, never in the JSON): a time-typed leaf built through a constructor or
	// setter is given a time.Time in this fixed zone whose clock reading is Txt.
	Zone int `json:"-"`
}

// MarshalJSON writes exactly the fields of the node's kind (the TLA+ side accesses
// record fields by name and must never meet a JSON null).
func (n Node) MarshalJSON() ([]byte, error) {
	nb := func(b B) B {
		if b == nil {
			return B{}
		}
		return b
	}
	switch n.K {
	case "kv":
		return json.Marshal(struct {
			K   string `json:"k"`
			Tag B      `json:"tag"`
			Ty  string `json:"ty"`
			Pop bool   `json:"pop"`
			Txt B      `json:"txt"`
			Via string `json:"via"`
		}{n.K, nb(n.Tag), n.Ty, n.Pop, nb(n.Txt), n.Via})
	case "grp":
		t, e := n.Tmpl, n.Entries
		if t == nil {
			t = []Node{}
		}
		if e == nil {
			e = [][]Node{}
		}
		for i := range e {
			if e[i] == nil {
				e[i] = []Node{}
			}
		}
		return json.Marshal(struct {
			K       string   `json:"k"`
			Tag     B        `json:"tag"`
			Tmpl    []Node   `json:"tmpl"`
			Entries [][]Node `json:"entries"`
		}{n.K, nb(n.Tag), t, e})
	case "cmp":
		it := n.Items
		if it == nil {
			it = []Node{}
		}
		return json.Marshal(struct {
			K     string `json:"k"`
			Items []Node `json:"items"`
		}{n.K, it})
	}
	return nil, fmt.Errorf("unknown node kind %q", n.K)
}

type Tags struct {
	Bs B `json:"bs"`
	Bl B `json:"bl"`
	Mt B `json:"mt"`
	Cs B `json:"cs"`
}

type Msg struct {
	Tags        Tags   `json:"tags"`
	BeginString B      `json:"beginString"`
	MsgType     B      `json:"msgType"`
	Header      []Node `json:"header"`
	Body        []Node `json:"body"`
	Trailer     []Node `json:"trailer"`
}

// normalise makes every slice non-nil so that JSON never contains null.
func normNodes(ns []Node) []Node {
	if ns == nil {
		return []Node{}
	}
	for i := range ns {
		n := &ns[i]
		if n.Txt == nil {
			n.Txt = B{}
		}
		switch n.K {
		case "grp":
			n.Tmpl = normNodes(n.Tmpl)
			if n.Entries == nil {
				n.Entries = [][]Node{}
			}
			for j := range n.Entries {
				n.Entries[j] = normNodes(n.Entries[j])
			}
		case "cmp":
			n.Items = normNodes(n.Items)
		}
	}
	return ns
}

func (m *Msg) Norm() {
	m.Header = normNodes(m.Header)
	m.Body = normNodes(m.Body)
	m.Trailer = normNodes(m.Trailer)
	if m.BeginString == nil {
		m.BeginString = B{}
	}
	if m.MsgType == nil {
		m.MsgType = B{}
	}
}

// emptyValue returns the typed empty value object a template uses for ty.
func emptyValue(ty string) fix.Value {
	switch ty {
	case "string":
		return &fix.String{}
	case "int":
		return &fix.Int{}
	case "uint":
		return &fix.Uint{}
	case "float":
		return &fix.Float{}
	case "time":
		return &fix.Time{}
	case "bool":
		return &fix.Bool{}
	case "raw":
		return &fix.Raw{}
	}
	panic("unknown value type " + ty)
}

// typed parses canonical text into the Go value of the leaf's type (harness side, strconv).
func typed(ty string, txt []byte) (interface{}, error) {
	switch ty {
	case "string":
		return string(txt), nil
	case "int":
		return strconv.Atoi(string(txt))
	case "uint":
		return strconv.ParseUint(string(txt), 10, 64)
	case "float":
		return strconv.ParseFloat(string(txt), 64)
	case "time":
		return time.Parse(fix.TimeLayout, string(txt))
	case "bool":
		return string(txt) == "Y", nil
	case "raw":
		return append([]byte{}, txt...), nil
	}
	return nil, fmt.Errorf("unknown type %s", ty)
}

// Canon renders a typed value as canonical FIX text, independently of the library.
func Canon(ty string, v interface{}) []byte {
	switch ty {
	case "string":
		return []byte(v.(string))
	case "int":
		return []byte(strconv.Itoa(v.(int)))
	case "uint":
		return []byte(strconv.FormatUint(v.(uint64), 10))
	case "float":
		return []byte(strconv.FormatFloat(v.(float64), 'f', -1, 64))
	case "time":
		return []byte(v.(time.Time).Format("20060102-15:04:05.000"))
	case "bool":
		if v.(bool) {
			return []byte("Y")
		}
		return []byte("N")
	case "raw":
		return v.([]byte)
	}
	panic("unknown type " + ty)
}

// LateEntries selects the build order of group entries (see buildNode).
var LateEntries bool

// MakeValue builds the real value object for a leaf through the requested public route.
func MakeValue(n *Node) (fix.Value, error) {
	if !n.Pop {
		return emptyValue(n.Ty), nil
	}
	txt := n.Txt.Bytes()
	via := n.Via
	if via == "" {
		via = "set"
	}
	if via == "parse" {
		v := emptyValue(n.Ty)
		if err := v.FromBytes(txt); err != nil {
			return nil, err
		}
		return v, nil
	}
	tv, err := typed(n.Ty, txt)
	if err != nil {
		return nil, fmt.Errorf("case value %q not of type %s: %v", txt, n.Ty, err)
	}
	if n.Ty == "time" && n.Zone != 0 {
		t := tv.(time.Time)
		tv = time.Date(t.Year(), t.Month(), t.Day(), t.Hour(), t.Minute(), t.Second(), t.Nanosecond(), time.FixedZone("", n.Zone))
	}
	if via == "new" {
		switch n.Ty {
		case "string":
			return fix.NewString(tv.(string)), nil
		case "int":
			return fix.NewInt(tv.(int)), nil
		case "uint":
			return fix.NewUint(tv.(uint64)), nil
		case "float":
			return fix.NewFloat(tv.(float64)), nil
		case "time":
			return fix.NewTime(tv.(time.Time)), nil
		case "raw":
			return fix.NewRaw(tv.([]byte)), nil
		}
		// no public constructor (bool): fall through to Set
	}
	v := emptyValue(n.Ty)
	if err := v.Set(tv); err != nil {
		return nil, err
	}
	return v, nil
}

func buildItems(ns []Node, blank bool) ([]fix.Item, error) {
	items := make([]fix.Item, 0, len(ns))
	for i := range ns {
		it, err := buildNode(&ns[i], blank)
		if err != nil {
			return nil, err
		}
		items = append(items, it)
	}
	return items, nil
}

func buildNode(n *Node, blank bool) (fix.Item, error) {
	switch n.K {
	case "kv":
		if blank {
			return fix.NewKeyValue(n.Tag.String(), emptyValue(n.Ty)), nil
		}
		v, err := MakeValue(n)
		if err != nil {
			return nil, err
		}
		return fix.NewKeyValue(n.Tag.String(), v), nil
	case "grp":
		tmpl, err := buildItems(n.Tmpl, true)
		if err != nil {
			return nil, err
		}
		g := fix.NewGroup(n.Tag.String(), tmpl...)
		if !blank {
			for _, e := range n.Entries {
				items, err := buildItems(e, false)
				if err != nil {
					return nil, err
				}
				if LateEntries {
					// the way generated code is used: the entry object (a Component) is added to the group first
					// and populated afterwards through slot-replacing setters
					blankItems, err := buildItems(e, true)
					if err != nil {
						return nil, err
					}
					entry := fix.NewComponent(blankItems...)
					g.AddEntry(entry.Items())
					for i, it := range items {
						entry.Set(i, it)
					}
				} else {
					g.AddEntry(items)
				}
			}
		}
		return g, nil
	case "cmp":
		items, err := buildItems(n.Items, blank)
		if err != nil {
			return nil, err
		}
		return fix.NewComponent(items...), nil
	}
	return nil, fmt.Errorf("unknown node kind %q", n.K)
}

// Build instantiates the case as a real message (blank = the empty parse target).
func Build(m *Msg, blank bool) (*fix.Message, error) {
	msg := fix.NewMessage(m.Tags.Bs.String(), m.Tags.Bl.String(), m.Tags.Cs.String(), m.Tags.Mt.String(),
		m.BeginString.String(), m.MsgType.String())
	h, err := buildItems(m.Header, blank)
	if err != nil {
		return nil, err
	}
	b, err := buildItems(m.Body, blank)
	if err != nil {
		return nil, err
	}
	t, err := buildItems(m.Trailer, blank)
	if err != nil {
		return nil, err
	}
	msg.SetHeader(fix.NewComponent(h...))
	msg.SetBody(b...)
	msg.SetTrailer(fix.NewComponent(t...))
	return msg, nil
}

// valueText reads a real value object through its typed getter and renders it canonically.
func valueText(ty string, v fix.Value) (pop bool, txt []byte, err error) {
	if v == nil || v.IsNull() {
		return false, nil, nil
	}
	defer func() {
		if r := recover(); r != nil {
			err = fmt.Errorf("value of leaf is not a %s: %v", ty, r)
		}
	}()
	switch ty {
	case "string":
		return true, []byte(v.Value().(string)), nil
	case "int":
		return true, Canon(ty, v.Value().(int)), nil
	case "uint":
		return true, Canon(ty, v.Value().(uint64)), nil
	case "float":
		return true, Canon(ty, v.Value().(float64)), nil
	case "time":
		return true, Canon(ty, v.Value().(time.Time)), nil
	case "bool":
		return true, Canon(ty, v.Value().(bool)), nil
	case "raw":
		return true, v.Value().([]byte), nil
	}
	return false, nil, fmt.Errorf("unknown type %s", ty)
}

func dumpItems(tmpl []Node, items []fix.Item) ([]Node, error) {
	if len(tmpl) != len(items) {
		return nil, fmt.Errorf("parsed item count %d differs from template %d", len(items), len(tmpl))
	}
	out := make([]Node, len(tmpl))
	for i := range tmpl {
		n, err := dumpNode(&tmpl[i], items[i])
		if err != nil {
			return nil, err
		}
		out[i] = n
	}
	return out, nil
}

func dumpNode(t *Node, it fix.Item) (Node, error) {
	switch t.K {
	case "kv":
		kv, ok := it.(*fix.KeyValue)
		if !ok {
			return Node{}, fmt.Errorf("item for tag %s is %T", t.Tag, it)
		}
		pop, txt, err := valueText(t.Ty, kv.Value)
		if err != nil {
			return Node{}, err
		}
		return Node{K: "kv", Tag: S2B(kv.Key), Ty: t.Ty, Pop: pop, Txt: ToB(txt)}, nil
	case "grp":
		g, ok := it.(*fix.Group)
		if !ok {
			return Node{}, fmt.Errorf("item for group %s is %T", t.Tag, it)
		}
		n := Node{K: "grp", Tag: S2B(g.NoTag()), Tmpl: t.Tmpl, Entries: [][]Node{}}
		for _, e := range g.Entries() {
			d, err := dumpItems(t.Tmpl, e)
			if err != nil {
				return Node{}, err
			}
			n.Entries = append(n.Entries, d)
		}
		return n, nil
	case "cmp":
		c, ok := it.(*fix.Component)
		if !ok {
			return Node{}, fmt.Errorf("item for component is %T", it)
		}
		d, err := dumpItems(t.Items, c.Items())
		if err != nil {
			return Node{}, err
		}
		return Node{K: "cmp", Items: d}, nil
	}
	return Node{}, fmt.Errorf("unknown node kind %q", t.K)
}

// Dump reads a real (parsed) message back into tree form following the template of tmpl.
func Dump(tmpl *Msg, msg *fix.Message) (*Msg, error) {
	out := &Msg{Tags: tmpl.Tags, BeginString: tmpl.BeginString, MsgType: tmpl.MsgType}
	var err error
	if out.Header, err = dumpItems(tmpl.Header, msg.Header().Items()); err != nil {
		return nil, err
	}
	if out.Body, err = dumpItems(tmpl.Body, msg.Body()); err != nil {
		return nil, err
	}
	if out.Trailer, err = dumpItems(tmpl.Trailer, msg.Trailer().Items()); err != nil {
		return nil, err
	}
	out.Norm()
	return out, nil
}
