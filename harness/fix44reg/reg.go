// Package fix44reg lists the message constructors of the generated reference package tests/fix44.
// reg_gen.go is regenerated from the package's source by tools/codec_checks.py before each build.
package fix44reg

import "github.com/b2broker/simplefix-go/fix"

type Entry struct {
	Name string
	New  func() (obj interface{}, msg *fix.Message)
}

var All []Entry
