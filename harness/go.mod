module verifharness

go 1.26

require github.com/b2broker/simplefix-go v0.0.0

replace github.com/b2broker/simplefix-go => /repo
