// Package race runs the concurrent-use scenarios of Access.tla on a -race build of the library.
// Both sides of every potentially conflicting pair are scheduled for the SAME virtual instant by
// independent goroutines, so that the harness itself adds no happens-before edge between them.
package race

import (
	"context"
	"net"
	"os"
	"strconv"
	"sync"
	"testing"
	"testing/synctest"
	"time"

	simplefixgo "github.com/b2broker/simplefix-go"
	"github.com/b2broker/simplefix-go/session"
	"github.com/b2broker/simplefix-go/storages/memory"
	fixgen "github.com/b2broker/simplefix-go/tests/fix44"
	"github.com/b2broker/simplefix-go/utils"

	"verifharness/sess"
)

func inbound(r *sess.Rig, n *int, mu *sync.Mutex, a string, id []int) {
	mu.Lock()
	*n++
	seq := *n
	mu.Unlock()
	act := &sess.Action{A: a, Seq: seq, Hb: 1, Enc: "0", Cred: true, Sq: "ok", Integ: "none", ID: id, B: 1, E: 0}
	r.H.ServeIncoming(sess.Inbound(act, "PEER", "SRV", time.Now().UTC().Format("20060102-15:04:05.000")))
}

// at runs f in its own goroutine at virtual instant d after the call.
func at(wg *sync.WaitGroup, d time.Duration, f func()) {
	wg.Add(1)
	go func() {
		defer wg.Done()
		time.Sleep(d)
		f()
	}()
}

func scenario(t *testing.T, name, role string) {
	synctest.Test(t, func(t *testing.T) {
		slow := 0
		if name == "calls_during_slow_logon" {
			slow = 100
		}
		r, err := sess.NewRig(sess.Cfg{Role: role, HbMin: 1, HbMax: 60, HbCfg: 1, EncCfg: "0", CloseMs: 500, Buf: 10, SlowLogonMs: slow})
		if err != nil {
			t.Fatalf("DRIVER-ERROR %v", err)
		}
		var pmu sync.Mutex
		pseq := 0
		var wg sync.WaitGroup
		_ = r.S.Run()
		synctest.Wait()
		logon := func() { inbound(r, &pseq, &pmu, "logon", nil); synctest.Wait() }
		send := func() { _ = r.S.Send(fixgen.NewMarketDataRequest().SetMDReqID("r")) }
		const T = time.Second          // heartbeat interval
		const Tin = 2 * time.Second    // inbound timeout for N = 1
		switch name {
		case "timers_vs_inbound": // inbound traffic exactly on the timer deadlines
			logon()
			for k := 1; k <= 6; k++ {
				at(&wg, time.Duration(k)*T, func() { inbound(r, &pseq, &pmu, "hbt", nil) })
				at(&wg, time.Duration(k)*Tin, func() { inbound(r, &pseq, &pmu, "testreq", []int{65}) })
				at(&wg, time.Duration(k)*Tin+200*time.Millisecond, func() { inbound(r, &pseq, &pmu, "app", nil) })
			}
		case "senders_vs_inbound_resend": // concurrent senders while resend requests and replies are dispatched
			logon()
			for k := 0; k < 8; k++ {
				for j := 0; j < 4; j++ {
					at(&wg, time.Duration(k*100)*time.Millisecond, send)
				}
				at(&wg, time.Duration(k*100)*time.Millisecond, func() { inbound(r, &pseq, &pmu, "resend", nil) })
				at(&wg, time.Duration(k*100)*time.Millisecond, func() { inbound(r, &pseq, &pmu, "testreq", []int{66}) })
			}
		case "senders_vs_timers": // sends exactly on both timer deadlines, state queries all along
			logon()
			for k := 1; k <= 5; k++ {
				at(&wg, time.Duration(k)*T, send)
				at(&wg, time.Duration(k)*Tin, send)
				at(&wg, time.Duration(k)*T, func() { _ = r.S.IsLogged() })
				at(&wg, time.Duration(k)*Tin, func() { _ = r.S.IsLogged() })
			}
		case "logon_vs_senders": // the Logon exchange while the application already sends and queries
			for j := 0; j < 4; j++ {
				at(&wg, 10*time.Millisecond, send)
				at(&wg, 10*time.Millisecond, func() { _ = r.S.IsLogged() })
			}
			at(&wg, 10*time.Millisecond, func() { inbound(r, &pseq, &pmu, "logon", nil) })
		case "logout_stop_vs_all": // local Logout / Stop from an application goroutine against dispatch, timers and senders
			logon()
			at(&wg, T, func() { _ = r.S.Logout() })
			at(&wg, T, func() { inbound(r, &pseq, &pmu, "hbt", nil) })
			at(&wg, T, send)
			at(&wg, Tin, func() { inbound(r, &pseq, &pmu, "logout", nil) })
			at(&wg, Tin, func() { _ = r.S.IsLogged() })
			at(&wg, Tin+T, func() { inbound(r, &pseq, &pmu, "logon", nil) })
			at(&wg, Tin+2*T, func() { _ = r.S.Stop() })
			at(&wg, Tin+2*T, func() { inbound(r, &pseq, &pmu, "testreq", []int{67}) })
			at(&wg, Tin+2*T, send)
		case "registration_vs_dispatch": // handler / event registration while messages and events flow
			logon()
			for k := 0; k < 6; k++ {
				d := time.Duration(k*50) * time.Millisecond
				at(&wg, d, func() { r.H.HandleIncoming(simplefixgo.AllMsgTypes, func([]byte) bool { return true }) })
				at(&wg, d, func() { r.H.HandleOutgoing("V", func(simplefixgo.SendingMessage) bool { return true }) })
				at(&wg, d, func() { r.S.OnChangeState(utils.EventLogout, func() bool { return true }) })
				at(&wg, d, func() { inbound(r, &pseq, &pmu, "testreq", []int{68}) })
				at(&wg, d, send)
			}
			at(&wg, 400*time.Millisecond, func() { inbound(r, &pseq, &pmu, "logout", nil) })
		case "resend_of_timer_messages": // messages sent by the timers are retransmitted while the timers keep firing
			logon()
			for k := 1; k <= 5; k++ {
				d := time.Duration(k)*T + 300*time.Millisecond
				at(&wg, d, func() { inbound(r, &pseq, &pmu, "resend", nil) })
				at(&wg, time.Duration(k+1)*T, func() { inbound(r, &pseq, &pmu, "resend", nil) })
			}
		case "silent_peer_disconnect": // both timers expire, the disconnect races with senders and queries
			logon()
			at(&wg, 2*Tin+200*time.Millisecond, send)
			at(&wg, 2*Tin+200*time.Millisecond, func() { _ = r.S.IsLogged() })
			at(&wg, 2*Tin+200*time.Millisecond, func() { inbound(r, &pseq, &pmu, "hbt", nil) })
			at(&wg, 2*Tin+400*time.Millisecond, send)
		case "calls_during_slow_logon": // the application stops / logs out / queries while its own (slow) logon callback is still running
			at(&wg, 0, func() { inbound(r, &pseq, &pmu, "logon", nil) })
			at(&wg, 50*time.Millisecond, func() { _ = r.S.IsLogged() })
			at(&wg, 50*time.Millisecond, send)
			at(&wg, 60*time.Millisecond, func() { _ = r.S.Logout() })
			at(&wg, 70*time.Millisecond, func() { _ = r.S.Stop() })
		case "testrequest_answer_vs_queries": // the session's own TestRequest is answered (by any message) while the application queries the state
			logon()
			for k, ans := range []string{"hbt", "app", "testreq", "hbt"} {
				ans := ans
				d := time.Duration(k+1)*Tin + time.Duration(k)*300*time.Millisecond + 250*time.Millisecond // the TestRequest of this round is out
				for j := 0; j < 3; j++ {
					at(&wg, d, func() { _ = r.S.IsLogged() })
				}
				at(&wg, d, func() { inbound(r, &pseq, &pmu, ans, []int{69}) })
				at(&wg, d+time.Millisecond, func() { _ = r.S.IsLogged() })
			}
		case "stop_vs_logout_answer": // Stop() while the peer's Logout (crossing ours) is dispatched: event callbacks fire while Stop re-registers its own
			logon()
			r.S.OnChangeState(utils.EventLogout, func() bool { return true })
			r.H.HandleOutgoing("5", func(simplefixgo.SendingMessage) bool { // the application's own (slow) handler of outgoing Logouts
				at(&wg, 0, func() { inbound(r, &pseq, &pmu, "logout", nil) })
				time.Sleep(20 * time.Millisecond)
				return true
			})
			at(&wg, T/2, func() { _ = r.S.Stop() })
			at(&wg, T/2+20*time.Millisecond, func() { r.S.OnChangeState(utils.EventLogout, func() bool { return true }) })
		case "relogon_after_stop_vs_context": // the session is stopped, the peer answers and logs on again while the application reads Context()
			logon()
			at(&wg, 100*time.Millisecond, func() { _ = r.S.Stop() })
			at(&wg, 200*time.Millisecond, func() { inbound(r, &pseq, &pmu, "logout", nil) })
			for k := 0; k < 8; k++ {
				d := 300*time.Millisecond + time.Duration(k)*time.Millisecond
				at(&wg, d, func() { _ = r.S.Context().Err() })
			}
			at(&wg, 300*time.Millisecond, func() { inbound(r, &pseq, &pmu, "logon", nil) })
			at(&wg, 300*time.Millisecond, func() { _ = r.S.IsLogged() })
			at(&wg, 400*time.Millisecond, func() { _ = r.S.Context().Err() })
		case "sessions_sharing_an_unmarshaller": // two sessions of one application decode at the same instants with the ONE unmarshaller it installed in both
			r2, err := sess.NewRig(sess.Cfg{Role: role, HbMin: 1, HbMax: 60, HbCfg: 1, EncCfg: "0", CloseMs: 500, Buf: 10})
			if err != nil {
				t.Fatalf("DRIVER-ERROR %v", err)
			}
			_ = r2.S.Run()
			synctest.Wait()
			var pmu2 sync.Mutex
			pseq2 := 0
			logon()
			inbound(r2, &pseq2, &pmu2, "logon", nil)
			synctest.Wait()
			for k := 0; k < 10; k++ {
				d := time.Duration(k*20) * time.Millisecond
				at(&wg, d, func() { inbound(r, &pseq, &pmu, "testreq", []int{70}) })
				at(&wg, d, func() { inbound(r2, &pseq2, &pmu2, "testreq", []int{71}) })
				at(&wg, d, func() { inbound(r, &pseq, &pmu, "hbt", nil) })
				at(&wg, d, func() { inbound(r2, &pseq2, &pmu2, "resend", nil) })
			}
			defer r2.Close(1)
		default:
			t.Fatalf("DRIVER-ERROR unknown scenario %s", name)
		}
		wg.Wait()
		synctest.Wait()
		time.Sleep(3 * time.Second)
		synctest.Wait()
		r.Close(1)
	})
}

// connectionDies: a real Initiator and Conn over an in-memory connection; the peer answers the Logon, then stops reading while
// several goroutines send (the writer is inside Write), then closes: the read and the pending write fail in the same episode,
// Serve and the handler wind down while senders still call Send and the application queries the state.
func connectionDies(t *testing.T) {
	// (real time: goroutines waiting for a mutex held by one that is parked on the connection are not "durably blocked" for
	// testing/synctest, the virtual clock would never advance)
	c1, c2 := net.Pipe()
	h := simplefixgo.NewInitiatorHandler(context.Background(), fixgen.FieldMsgType, 10)
	store := memory.NewStorage()
	s, err := session.NewInitiatorSession(h, sess.Opts([]string{"0"}), &session.LogonSettings{TargetCompID: "PEER", SenderCompID: "SRV",
		HeartBtInt: 1, EncryptMethod: "0", CloseTimeout: 200 * time.Millisecond}, store, store)
	if err != nil {
		t.Fatalf("DRIVER-ERROR %v", err)
	}
	ini := simplefixgo.NewInitiator(c1, h, 10, 300*time.Millisecond)
	serveDone := make(chan struct{})
	go func() { _ = ini.Serve(); close(serveDone) }()
	_ = s.Run()
	buf := make([]byte, 4096)
	_ = c2.SetDeadline(time.Now().Add(2 * time.Second))
	_, _ = c2.Read(buf) // the Logon
	a := &sess.Action{A: "logon", Seq: 1, Hb: 1, Enc: "0", Cred: true, Sq: "ok", Integ: "none", ID: []int{}}
	_, _ = c2.Write(sess.Inbound(a, "PEER", "SRV", time.Now().UTC().Format("20060102-15:04:05.000")))
	time.Sleep(20 * time.Millisecond)
	var wg sync.WaitGroup
	for g := 0; g < 4; g++ {
		wg.Add(1)
		go func() {
			defer wg.Done()
			for k := 0; k < 6; k++ {
				done := make(chan struct{})
				go func() { _ = s.Send(fixgen.NewMarketDataRequest().SetMDReqID("x")); close(done) }()
				select {
				case <-done:
				case <-time.After(2 * time.Second):
					return
				}
				_ = s.IsLogged()
			}
		}()
	}
	time.Sleep(30 * time.Millisecond) // the peer has stopped reading: the writer is inside a Write, the queue fills up
	_ = c2.Close()
	time.Sleep(400 * time.Millisecond)
	h.Stop()
	ini.Close()
	wg.Wait()
	select {
	case <-serveDone:
	case <-time.After(2 * time.Second):
	}
	time.Sleep(50 * time.Millisecond)
}

func TestRace(t *testing.T) {
	name, role := os.Getenv("VERIF_RACE_SCENARIO"), os.Getenv("VERIF_RACE_ROLE")
	if name == "" {
		t.Skip("VERIF_RACE_SCENARIO not set")
	}
	reps, _ := strconv.Atoi(os.Getenv("VERIF_RACE_REPS"))
	if reps <= 0 {
		reps = 1
	}
	for i := 0; i < reps; i++ {
		if name == "connection_dies_under_load" {
			connectionDies(t)
			continue
		}
		scenario(t, name, role)
	}
}
