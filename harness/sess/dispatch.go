package sess

import (
	"bytes"
	"context"
	"errors"
	"strconv"
	"sync"
	"testing"
	"testing/synctest"
	"time"

	simplefixgo "github.com/b2broker/simplefix-go"
	"github.com/b2broker/simplefix-go/fix"
	"github.com/b2broker/simplefix-go/session"
	"github.com/b2broker/simplefix-go/storages/memory"
	fixgen "github.com/b2broker/simplefix-go/tests/fix44"
)

// ---- C19: handler order, store-before-send, refusals (Dispatch.tla) ----

type HSpec struct {
	ID     int    `json:"id"`
	Dir    string `json:"dir"`   // out | in
	Ty     string `json:"ty"`    // ALL or a MsgType
	Accept bool   `json:"accept"`
	When   string `json:"when"`  // pre (before Session.Run) | post (after logon)
	Mutate bool   `json:"mutate"` // an outgoing handler that amends the message (the documented purpose of HandleOutgoing)
}

type DStep struct {
	A  string `json:"a"`  // send | recv
	Ty string `json:"ty"` // send: V ; recv: 1 (test request -> Heartbeat reply) | D | 0
}

type DScenario struct {
	ID         string  `json:"id"`
	Role       string  `json:"role"`
	Handlers   []HSpec `json:"handlers"`
	SaveFailAt int     `json:"saveFailAt"` // the k-th Save fails (0: never)
	Steps      []DStep `json:"steps"`
	LateAt     int     `json:"lateAt"` // handlers with when = "late" are registered after this many steps (traffic of their type has passed)
}

type DRegObs struct {
	K  string `json:"k"` // dreg
	ID string `json:"id"`
	I  int    `json:"i"`
}

type Call struct {
	H     int    `json:"h"`
	Dir   string `json:"dir"`
	Ty    string `json:"ty"`   // type of the message the handler saw
	Seq   int    `json:"seq"`  // its MsgSeqNum (out) / -1
	Bytes []int  `json:"bytes"`
	Pos   int    `json:"pos"`
}

type SaveRec struct {
	Seq   int   `json:"seq"`
	Ok    bool  `json:"ok"`
	Bytes []int `json:"bytes"`
	Pos   int   `json:"pos"` // position in the step's combined call log
}

type DStepObs struct {
	K     string    `json:"k"` // dstep
	ID    string    `json:"id"`
	I     int       `json:"i"`
	A     DStep     `json:"a"`
	Calls []Call    `json:"calls"`
	Saves []SaveRec `json:"saves"`
	Wire  []WireMsg `json:"wire"`
	Err   bool      `json:"err"`
}

type WireMsg struct {
	Ty    string `json:"ty"`
	Seq   int    `json:"seq"`
	Bytes []int  `json:"bytes"`
}

type DInitObs struct {
	K          string  `json:"k"` // dinit
	ID         string  `json:"id"`
	Role       string  `json:"role"`
	Handlers   []HSpec `json:"handlers"`
	SaveFailAt int     `json:"saveFailAt"`
}

func ints(b []byte) []int {
	r := make([]int, len(b))
	for i, c := range b {
		r[i] = int(c)
	}
	return r
}

// failingStore wraps the bundled memory store: application-side code, no hook.
type failingStore struct {
	*memory.Storage
	mu     sync.Mutex
	n      int
	failAt int
	log    func(seq int, ok bool, b []byte)
}

func (f *failingStore) Save(id fix.StorageID, msg simplefixgo.SendingMessage, seq int) error {
	f.mu.Lock()
	f.n++
	fail := f.failAt != 0 && f.n == f.failAt
	f.mu.Unlock()
	b, _ := msg.ToBytes()
	if fail {
		f.log(seq, false, b)
		return errors.New("store: injected failure")
	}
	err := f.Storage.Save(id, msg, seq)
	f.log(seq, err == nil, b)
	return err
}

// RunDispatch executes one C19 scenario.
func RunDispatch(t *testing.T, sc *DScenario) (recs []interface{}, failure string) {
	recs = append(recs, DInitObs{"dinit", sc.ID, sc.Role, sc.Handlers, sc.SaveFailAt})
	synctest.Test(t, func(t *testing.T) {
		ctx, cancel := context.WithCancel(context.Background())
		var mu sync.Mutex
		var calls []Call
		var saves []SaveRec
		var wire []WireMsg
		pos := 0
		st := &failingStore{Storage: memory.NewStorage(), failAt: 0}
		st.log = func(seq int, ok bool, b []byte) {
			mu.Lock()
			pos++
			saves = append(saves, SaveRec{seq, ok, ints(b), pos})
			mu.Unlock()
		}
		var h *simplefixgo.DefaultHandler
		var s *session.Session
		var err error
		if sc.Role == "acceptor" {
			h = simplefixgo.NewAcceptorHandler(ctx, fixgen.FieldMsgType, 10)
			s, err = session.NewAcceptorSession(Opts([]string{"0"}), h, &session.LogonSettings{
				LogonTimeout: time.Second * 30, HeartBtLimits: &session.IntLimits{Min: 1, Max: 60}},
				func(*session.LogonSettings) error { return nil }, st.Storage, st)
		} else {
			h = simplefixgo.NewInitiatorHandler(ctx, fixgen.FieldMsgType, 10)
			s, err = session.NewInitiatorSession(h, Opts([]string{"0"}), &session.LogonSettings{
				TargetCompID: peerID, SenderCompID: ourID, HeartBtInt: 30, EncryptMethod: "0"}, st.Storage, st)
		}
		if err != nil {
			failure = err.Error()
			cancel()
			return
		}
		register := func(hs HSpec) {
			if hs.Dir == "out" {
				h.HandleOutgoing(hs.Ty, func(m simplefixgo.SendingMessage) bool {
					if hs.Mutate {
						m.HeaderBuilder().SetFieldSenderCompID("AMENDED" + strconv.Itoa(hs.ID))
					}
					b, _ := m.ToBytes()
					mu.Lock()
					pos++
					calls = append(calls, Call{hs.ID, "out", m.MsgType(), m.HeaderBuilder().MsgSeqNum(), ints(b), pos})
					mu.Unlock()
					return hs.Accept
				})
			} else {
				h.HandleIncoming(hs.Ty, func(b []byte) bool {
					d := MakeDigest(b)
					mu.Lock()
					pos++
					calls = append(calls, Call{hs.ID, "in", d.Ty, d.Seq, ints(b), pos})
					mu.Unlock()
					return hs.Accept
				})
			}
		}
		done := make(chan struct{})
		var wg sync.WaitGroup
		wg.Add(2)
		go func() { defer wg.Done(); _ = h.Run() }()
		gate := make(chan struct{}, 1) // a token: the writer may take messages off the queue
		gate <- struct{}{}
		go func() {
			defer wg.Done()
			for {
				select {
				case <-gate: // (held back during a burst: the messages wait in the queue, as behind a slow connection)
					gate <- struct{}{}
				case <-done:
					return
				}
				select {
				case raw := <-h.Outgoing():
					raw = append([]byte{}, raw...)
					d := MakeDigest(raw)
					mu.Lock()
					wire = append(wire, WireMsg{d.Ty, d.Seq, ints(raw)})
					mu.Unlock()
				case <-done:
					return
				}
			}
		}()
		for _, hs := range sc.Handlers {
			if hs.When == "pre" {
				register(hs)
			}
		}
		_ = s.Run()
		synctest.Wait()
		p := Peer{}
		h.ServeIncoming(Inbound(p.next("logon", 30), peerID, ourID, ts(time.Now())))
		synctest.Wait()
		if !s.IsLogged() {
			failure = "dispatch rig: logon did not succeed"
		}
		for _, hs := range sc.Handlers {
			if hs.When != "pre" && hs.When != "late" {
				register(hs)
			}
		}
		// the scripted failures count from the first scenario step
		mu.Lock()
		calls, saves, wire, pos = nil, nil, nil, 0
		mu.Unlock()
		st.mu.Lock()
		st.n, st.failAt = 0, sc.SaveFailAt
		st.mu.Unlock()
		nrec := 0
		for i, stp := range sc.Steps {
			if i == sc.LateAt && i > 0 {
				n := 0
				for _, hs := range sc.Handlers {
					if hs.When == "late" {
						register(hs)
						n++
					}
				}
				if n > 0 {
					recs = append(recs, DRegObs{"dreg", sc.ID, 0})
				}
			}
			if stp.A == "burst" {
				// ONE message object sent three times while the writer is held back, then the queue drains: every transmission
				// is judged like a send of its own (what the handlers saw, what was saved, what went out)
				<-gate
				own := fixgen.NewMarketDataRequest()
				var parts []DStepObs
				for k := 0; k < 3; k++ {
					err := s.Send(own.SetMDReqID("b"+strconv.Itoa(k))) != nil
					mu.Lock()
					o := DStepObs{K: "dstep", ID: sc.ID, A: DStep{A: "send", Ty: "V"}, Calls: calls, Saves: saves, Wire: []WireMsg{}, Err: err}
					calls, saves, pos = nil, nil, 0
					mu.Unlock()
					if o.Calls == nil {
						o.Calls = []Call{}
					}
					if o.Saves == nil {
						o.Saves = []SaveRec{}
					}
					parts = append(parts, o)
				}
				gate <- struct{}{}
				synctest.Wait()
				mu.Lock()
				w := wire
				calls, saves, wire, pos = nil, nil, nil, 0
				mu.Unlock()
				j := 0
				for k := range parts {
					if !parts[k].Err && j < len(w) {
						parts[k].Wire = []WireMsg{w[j]}
						j++
					}
				}
				for ; j < len(w); j++ { // more on the wire than sends that succeeded
					parts[len(parts)-1].Wire = append(parts[len(parts)-1].Wire, w[j])
				}
				for k := range parts {
					nrec++
					parts[k].I = nrec
					recs = append(recs, parts[k])
				}
				continue
			}
			callErr := false
			switch stp.A {
			case "batch": // three messages handed to the handler in one call (DefaultHandler.SendBatch), numbered by the application
				var ms []simplefixgo.SendingMessage
				for j := 0; j < 3; j++ {
					m := fixgen.NewMarketDataRequest().SetMDReqID("batch" + strconv.Itoa(j))
					m.HeaderBuilder().SetFieldMsgSeqNum(9000 + nrec*10 + j).SetFieldSenderCompID(ourID).SetFieldTargetCompID(peerID)
					ms = append(ms, m)
				}
				callErr = h.SendBatch(ms) != nil
			case "stop": // the application closes the session (Logout; the session context is cancelled at the deadline, CloseTimeout = 0 here)
				// while the handler and the connection stay up: what is sent through the session afterwards is judged like any send
				callErr = s.Stop() != nil
			case "send":
				m := fixgen.NewMarketDataRequest().SetMDReqID("r")
				if nrec%2 == 1 { // every other one is a message received elsewhere and passed on (populated by parsing, old number in its header)
					m = ParsedRequest("r")
				}
				callErr = s.Send(m) != nil
			case "recv":
				var a *Action
				switch stp.Ty {
				case "1":
					a = p.next("testreq", 0)
					a.ID = []int{65}
				case "2":
					a = p.next("resend", 0)
					a.B, a.E = 1, 0
				case "0":
					a = p.next("hbt", 0)
				case "5": // the peer logs out (we answer) ...
					a = p.next("logout", 0)
				case "A": // ... and logs on again: the second lifetime of the same session object
					a = p.next("logon", 30)
				default:
					a = p.next("app", 0)
				}
				raw := Inbound(a, peerID, ourID, ts(time.Now()))
				if stp.Ty == "d" || stp.Ty == "v" { // an application message of a lower-case type (FIX types are case sensitive)
					a2 := *a
					raw = InboundOfType(&a2, stp.Ty, peerID, ourID, ts(time.Now()))
				}
				h.ServeIncoming(raw)
			}
			synctest.Wait()
			mu.Lock()
			nrec++
			o := DStepObs{K: "dstep", ID: sc.ID, I: nrec, A: stp, Calls: calls, Saves: saves, Wire: wire, Err: callErr}
			calls, saves, wire, pos = nil, nil, nil, 0
			mu.Unlock()
			if o.Calls == nil {
				o.Calls = []Call{}
			}
			if o.Saves == nil {
				o.Saves = []SaveRec{}
			}
			if o.Wire == nil {
				o.Wire = []WireMsg{}
			}
			recs = append(recs, o)
		}
		cancel()
		synctest.Wait()
		time.Sleep(200 * time.Second)
		synctest.Wait()
		close(done)
		h.CloseErrorChan()
		wg.Wait()
	})
	return recs, failure
}

// Peer numbers the peer's messages.
type Peer struct{ n int }

func (p *Peer) next(a string, hb int) *Action {
	p.n++
	x := &Action{A: a, Seq: p.n, Hb: hb, Enc: "0", Cred: true}
	x.norm()
	return x
}

var _ = bytes.Equal
