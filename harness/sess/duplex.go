package sess

import (
	"math/rand"
	"strconv"
	"testing"
	"testing/synctest"
	"time"
)

// ---- two REAL sessions (an acceptor and an initiator) talking to each other ----
//
// The traffic each side receives is produced by the other real session, not by the harness'
// hand-made peer: real sequence numbers, gap requests, heartbeats, test requests, logouts.
// A scheduler moves one message at a time between the two handlers and waits for quiescence
// after each delivery, so every outbound message is attributed exactly: to the delivery that
// provoked it (no virtual time passes) or to the passage of time.  Each side's log is an
// ordinary scenario trace for SessionTrace.

type DuplexScenario struct {
	ID     string `json:"id"`
	Hb     int    `json:"hb"`
	Seed   int64  `json:"seed"`
	Steps  int    `json:"steps"`
	CloseMs int   `json:"closeMs"`
	DropPct int   `json:"dropPct"` // percentage of in-flight messages the "network" loses (exercises gap detection at re-logon)
}

// actionFromRaw classifies a real message as the inbound action it is for the receiving side.
func actionFromRaw(raw []byte) Action {
	d := MakeDigest(raw)
	a := Action{Seq: d.Seq, Sq: "ok", Integ: "none", Enc: d.Enc, Cred: d.Pass != "bad", Hb: d.Hb, B: d.B, E: d.E, ID: d.Trid}
	if d.Seq < 0 {
		a.Sq, a.Seq = "missing", 0
	}
	if !d.Framed {
		a.Integ = "checksum"
	}
	if a.Hb < 0 {
		a.Hb = 0
	}
	if a.B < 0 {
		a.B = 0
	}
	if a.E < 0 {
		a.E = 0
	}
	switch d.Ty {
	case "A":
		a.A = "logon"
	case "5":
		a.A = "logout"
	case "0":
		a.A = "hbt"
	case "1":
		a.A = "testreq"
	case "2":
		a.A = "resend"
	case "3", "V", "D":
		a.A = "app" // a Reject or an application message: no session-level reaction expected
	default:
		a.A = "unknown"
	}
	a.norm()
	return a
}

type flight struct {
	raw []byte
	to  int
}

// RunDuplex runs one duplex scenario and returns the two traces (acceptor first).
func RunDuplex(t *testing.T, sc *DuplexScenario) (recs []interface{}, failure string) {
	cfgs := []Cfg{
		{Role: "acceptor", HbMin: 1, HbMax: 60, HbCfg: sc.Hb, EncCfg: "0", Allowed: []string{"0"}, CloseMs: sc.CloseMs, Buf: 10},
		{Role: "initiator", HbMin: 1, HbMax: 60, HbCfg: sc.Hb, EncCfg: "0", Allowed: []string{"0"}, CloseMs: sc.CloseMs, Buf: 10},
	}
	ids := []string{sc.ID + "/acc", sc.ID + "/ini"}
	logs := [][]interface{}{{InitObs{"init", ids[0], cfgs[0]}}, {InitObs{"init", ids[1], cfgs[1]}}}
	synctest.Test(t, func(t *testing.T) {
		rnd := rand.New(rand.NewSource(sc.Seed))
		var rigs [2]*Rig
		for i := range rigs {
			r, err := NewRig(cfgs[i])
			if err != nil {
				failure = err.Error()
				return
			}
			rigs[i] = r
		}
		// the acceptor mirrors the identifiers of the initiator's Logon; the initiator is SRV -> PEER, so the acceptor
		// sends as PEER -> SRV (only the session layer is under test here)
		steps := []int{0, 0}
		var queue []flight
		record := func(i int, a Action, t0 int64, callErr bool) {
			r := rigs[i]
			outs, evs, raws := r.drain()
			steps[i]++
			logs[i] = append(logs[i], StepObs{K: "step", ID: ids[i], I: steps[i], A: a, T: t0, Outs: outs,
				Logged: r.S.IsLogged(), Ctx: r.Ctx0.Err() != nil, HCtx: r.H.Context().Err() != nil,
				Events: evs, Err: callErr, Saves: []int{}})
			for _, raw := range raws {
				if sc.DropPct > 0 && rnd.Intn(100) < sc.DropPct {
					continue // lost on the way
				}
				queue = append(queue, flight{raw, 1 - i})
			}
		}
		local := func(i int, name string) {
			a := Action{A: name}
			a.norm()
			t0 := rigs[i].ms()
			callErr := rigs[i].Do(&a)
			record(i, a, t0, callErr)
		}
		local(0, "run")
		local(1, "run")
		for n := 0; n < sc.Steps; n++ {
			if rigs[0].S.Context().Err() != nil || rigs[1].S.Context().Err() != nil {
				break
			}
			if len(queue) > 0 && rnd.Intn(10) > 0 {
				f := queue[0]
				queue = queue[1:]
				a := actionFromRaw(f.raw)
				t0 := rigs[f.to].ms()
				rigs[f.to].H.ServeIncoming(f.raw)
				synctest.Wait()
				record(f.to, a, t0, false)
				continue
			}
			switch k := rnd.Intn(20); {
			case k < 9:
				d := []int{1, sc.Hb * 300, sc.Hb * 1000, sc.Hb*1000 + sc.Hb*100, sc.Hb * 2500}[rnd.Intn(5)]
				a := Action{A: "advance", Ms: d}
				a.norm()
				t0 := rigs[0].ms()
				time.Sleep(time.Duration(d) * time.Millisecond)
				synctest.Wait()
				record(0, a, t0, false)
				record(1, a, t0, false)
			case k < 15:
				i := rnd.Intn(2)
				if rigs[i].S.IsLogged() {
					local(i, "send")
				}
			case k < 16:
				local(rnd.Intn(2), "llogout")
			case k < 17 && n > sc.Steps/2:
				local(rnd.Intn(2), "stop")
			default:
				// the initiator logs on again after a logout
				if !rigs[1].S.IsLogged() && !rigs[0].S.IsLogged() && len(queue) == 0 {
					a := Action{A: "relogon"}
					a.norm()
					t0 := rigs[1].ms()
					_ = rigs[1].S.LogonRequest()
					synctest.Wait()
					record(1, a, t0, false)
				}
			}
		}
		for i := range rigs {
			rigs[i].Close(sc.Hb)
		}
	})
	if failure != "" {
		return nil, failure
	}
	return append(logs[0], logs[1]...), ""
}

var _ = strconv.Itoa
