// Package sess drives a real session.Session attached to a real DefaultHandler inside a
// testing/synctest bubble (virtual clock) and records what it did, one ndjson record per step,
// for validation against Session.tla / SessionTrace.tla.
package sess

import (
	"bytes"
	"fmt"
	"strconv"
)

// ---- the peer: builds inbound messages by hand, independently of the library's encoder ----

type Field struct {
	Tag string
	Val []byte
}

func F(tag string, val string) Field { return Field{tag, []byte(val)} }

// Frame serialises fields between BodyLength and CheckSum and adds correct framing.
func Frame(fields []Field) []byte {
	var body bytes.Buffer
	for _, f := range fields {
		body.WriteString(f.Tag)
		body.WriteByte('=')
		body.Write(f.Val)
		body.WriteByte(1)
	}
	var pre bytes.Buffer
	pre.WriteString("8=FIX.4.4\x019=" + strconv.Itoa(body.Len()) + "\x01")
	pre.Write(body.Bytes())
	sum := 0
	for _, b := range pre.Bytes() {
		sum += int(b)
	}
	pre.WriteString(fmt.Sprintf("10=%03d\x01", sum%256))
	return pre.Bytes()
}

// Damage applies an integrity damage to a correctly framed message.
func Damage(raw []byte, integ string) []byte {
	out := append([]byte{}, raw...)
	switch integ {
	case "checksum":
		// three shapes of a CheckSum that does not agree with the content, chosen by the content itself (so that a scenario is
		// reproducible and all shapes occur): another last digit; the right value plus 256 (equal modulo 256, still three
		// digits); the right three digits behind a further digit
		v := 0
		for _, b := range raw {
			v += int(b)
		}
		i := len(out) - 2
		if v%4 == 3 {
			// a fourth shape: BeginString and BodyLength moved behind the content (just ahead of the CheckSum field), with
			// values that "agree arithmetically" with the bytes between the framing fields - not a framed message all the same
			a := bytes.Index(raw, []byte("\x019=")) + 1
			a += bytes.IndexByte(raw[a:], 1) + 1
			content := raw[a : len(raw)-7]
			d := append([]byte{}, content...)
			d = append(d, []byte("8=FIX.4.4\x019="+strconv.Itoa(len(content))+"\x01")...)
			sum := 0
			for _, b := range d {
				sum += int(b)
			}
			return append(d, []byte(fmt.Sprintf("10=%03d\x01", sum%256))...)
		}
		switch v % 3 {
		case 0:
			if out[i] == '9' {
				out[i] = '0'
			} else {
				out[i]++
			}
		case 1:
			n, _ := strconv.Atoi(string(out[i-2 : i+1]))
			copy(out[i-2:], []byte(fmt.Sprintf("%03d", n+256)))
		case 2:
			out = append(append(append([]byte{}, raw[:i-2]...), '1'), raw[i-2:]...)
		}
	case "bodylength":
		// rewrite 9=<n> as 9=<n+1> and recompute the checksum so that only the length is wrong
		i := bytes.Index(out, []byte("\x019=")) + 3
		j := i + bytes.IndexByte(out[i:], 1)
		n, _ := strconv.Atoi(string(out[i:j]))
		mid := append([]byte{}, out[:i]...)
		mid = append(mid, []byte(strconv.Itoa(n+1))...)
		mid = append(mid, out[j:len(out)-7]...)
		sum := 0
		for _, b := range mid {
			sum += int(b)
		}
		out = append(mid, []byte(fmt.Sprintf("10=%03d\x01", sum%256))...)
	}
	return out
}

// Action is one step of a scenario (uniform record: every field always present).
type Action struct {
	A     string `json:"a"`     // run logon logout hbt testreq resend app unknown send llogout stop advance
	Seq   int    `json:"seq"`   // MsgSeqNum of an inbound message
	Sq    string `json:"sq"`    // ok | missing | nonnum
	Integ string `json:"integ"` // none | checksum | bodylength | nonnum | grpcount (Logon only)
	Hb    int    `json:"hb"`
	Enc   string `json:"enc"`
	Cred  bool   `json:"cred"`
	ID    []int  `json:"id"` // TestReqID bytes
	B     int    `json:"b"`
	E     int    `json:"e"`
	Ms    int    `json:"ms"`
	// Mid: for local calls (send, llogout): the kind of inbound message the peer delivers while the call's own
	// message is still inside the send path ("" = none); MidSeq is its sequence number
	Mid    string `json:"mid"`
	MidSeq int    `json:"midSeq"`
	// Empty: the unparsable numeric field (Sq / Integ = "nonnum") is present WITHOUT a value instead of holding letters
	Empty bool `json:"empty"`
	// NumTxt: the text of the unparsable numeric field (Sq / Integ = "nonnum"); "" = letters.  With Integ = "nonnum" it replaces
	// the value of the message's own numeric field (HeartBtInt of a Logon, BeginSeqNo of a ResendRequest) where there is one
	NumTxt string `json:"numTxt"`
	// Extra (5, 6: look-alike tags 1035=A / 1034=1 134=77 ahead of the genuine MsgType / MsgSeqNum field; 7, 8: 355=5 / 350=A 340=1 349=77 likewise): a message that means the same written differently: 1 = a field the library does not know (9999) at the end of the
	// body, 2 = the same inside the header, 3 = TargetCompID before SenderCompID, 4 = SendingTime before MsgSeqNum
	Extra int `json:"extra"`
	// Omit: a Logon that lacks EncryptMethod ("enc"), HeartBtInt ("hb") or both ("both"); for the specification the same as an
	// empty method / an interval of 0
	Omit string `json:"omit"`
	// Pipe (wire histories): this inbound message and the Pipe messages that follow it are written to the connection in ONE write;
	// what comes back is attributed by content (a Reject by its RefSeqNum, a Heartbeat by its TestReqID, a Logout to the Logout)
	Pipe bool `json:"pipe"`
}

func (a *Action) norm() {
	if a.Sq == "" {
		a.Sq = "ok"
	}
	if a.Integ == "" {
		a.Integ = "none"
	}
	if a.ID == nil {
		a.ID = []int{}
	}
}

// IDBytes exposes idBytes.
func IDBytes(id []int) []byte { return idBytes(id) }

func idBytes(id []int) []byte {
	b := make([]byte, len(id))
	for i, c := range id {
		b[i] = byte(c)
	}
	return b
}

// Inbound builds the raw bytes the peer sends for an inbound action.
func Inbound(a *Action, peerID, ourID string, ts string) []byte {
	var ty string
	var body []Field
	bad := func(def string) string { // the unparsable text
		if a.Empty {
			return ""
		}
		if a.NumTxt != "" {
			return a.NumTxt
		}
		return def
	}
	ownField := a.Integ == "nonnum" && a.NumTxt != "" && (a.A == "logon" || a.A == "resend")
	switch a.A {
	case "logon":
		ty = "A"
		pw := "good"
		if !a.Cred {
			pw = "bad"
		}
		hb := strconv.Itoa(a.Hb)
		if ownField {
			hb = a.NumTxt
		}
		body = []Field{}
		if a.Omit != "enc" && a.Omit != "both" {
			body = append(body, F("98", a.Enc))
		}
		if a.Omit != "hb" && a.Omit != "both" {
			body = append(body, F("108", hb))
		}
		if a.Extra == 10 { // ... a Logon that carries ResetSeqNumFlag (141=Y), as clients configured to reset on logon send it every time
			body = append(body, F("141", "Y"))
		}
		if a.Integ == "grpcount" {
			// structural damage of a repeating group in an otherwise perfectly framed Logon: NoMsgTypes (384) announces one
			// entry, two follow
			body = append(body, F("384", "1"), F("372", "D"), F("385", "S"), F("372", "8"), F("385", "R"))
		}
		body = append(body, F("553", "user"), F("554", pw))
	case "logout":
		ty = "5"
		if len(a.ID) > 0 { // Text
			body = []Field{{"58", idBytes(a.ID)}}
		}
	case "hbt":
		ty = "0"
	case "testreq":
		ty = "1"
		body = []Field{{"112", idBytes(a.ID)}}
	case "resend":
		ty = "2"
		b := strconv.Itoa(a.B)
		if ownField {
			b = a.NumTxt
		}
		body = []Field{F("7", b), F("16", strconv.Itoa(a.E))}
	case "app":
		ty = "D"
		body = []Field{F("11", "ord1"), F("55", "BTC/USD")}
		// look-alikes: free text (58) with the given bytes, and a field whose tag number is a.B with the value "4" / a.E
		if len(a.ID) > 0 {
			body = append(body, Field{"58", idBytes(a.ID)})
		}
		if a.B > 0 {
			body = append(body, F(strconv.Itoa(a.B), strconv.Itoa(a.E)))
		}
	case "unknown":
		// a type the session has no meaning for - also one that differs from an administrative type only by case or by a further
		// character ("a" is QuoteStatusRequest, "A" is Logon), carrying what a Logon would carry
		ty = []string{"ZZ", "a", "AA", "a", "5A", "A0"}[((a.Seq%6)+6)%6]
		body = []Field{F("58", "hello")}
		if ty != "ZZ" {
			body = []Field{F("98", "0"), F("108", "30"), F("553", "user"), F("554", "good"), F("112", "look")}
		}
	default:
		panic("not an inbound action: " + a.A)
	}
	fields := []Field{F("35", ty), F("49", peerID), F("56", ourID)}
	if a.Extra == 5 || a.Extra == 6 {
		// a longer tag that ends in the digits of MsgType / MsgSeqNum, with a plausible value, AHEAD of the genuine field
		fields = []Field{F("1035", "A"), F("35", ty), F("49", peerID), F("56", ourID)}
		if a.Extra == 6 {
			fields = []Field{F("35", ty), F("1034", "1"), F("134", "77"), F("49", peerID), F("56", ourID)}
		}
	}
	if a.Extra == 7 || a.Extra == 8 {
		// longer tags that BEGIN with the digits of MsgType / MsgSeqNum, with plausible values, ahead of the genuine fields
		fields = []Field{F("355", "5"), F("35", ty), F("49", peerID), F("56", ourID)}
		if a.Extra == 8 {
			fields = []Field{F("350", "A"), F("35", ty), F("340", "1"), F("349", "77"), F("49", peerID), F("56", ourID)}
		}
	}
	if a.Extra == 9 {
		// optional standard header fields of a counterparty that routes through a hub: TargetSubID (57), PossResend (97),
		// OnBehalfOfCompID / SubID (115, 116) - their tags end in the digits of BeginSeqNo (7) and EndSeqNo (16)
		fields = []Field{F("35", ty), F("49", peerID), F("56", ourID), F("57", "DESK7"), F("97", "N"), F("115", "HUB"), F("116", "SUB16")}
	}
	if a.Extra == 11 {
		// PossDupFlag=Y in the header (a counterparty that retransmits): it changes nothing about whether the message is valid
		fields = []Field{F("35", ty), F("43", "Y"), F("49", peerID), F("56", ourID)}
	}
	if a.Extra == 3 {
		fields = []Field{F("35", ty), F("56", ourID), F("49", peerID)}
	}
	if a.Extra == 4 {
		fields = append(fields, F("52", ts))
	}
	switch a.Sq {
	case "ok":
		fields = append(fields, F("34", strconv.Itoa(a.Seq)))
	case "nonnum":
		fields = append(fields, F("34", bad("abc")))
	}
	if a.Extra == 2 {
		fields = append(fields, F("9999", "x"))
	}
	if a.Extra != 4 {
		fields = append(fields, F("52", ts))
	}
	if a.Extra == 1 {
		body = append(body, F("9999", "unknown field"))
	}
	if a.Integ == "nonnum" && !ownField {
		fields = append(fields, F("369", bad("x1"))) // LastMsgSeqNumProcessed is an int field of the header
	}
	fields = append(fields, body...)
	return Damage(Frame(fields), a.Integ)
}

// InboundOfType: an application message of the given MsgType (body as for "app").
func InboundOfType(a *Action, ty, peerID, ourID, ts string) []byte {
	fields := []Field{F("35", ty), F("49", peerID), F("56", ourID), F("34", strconv.Itoa(a.Seq)), F("52", ts), F("11", "ord1"), F("55", "BTC/USD")}
	return Frame(fields)
}

// ---- independent tokenizer: raw bytes -> digest ----

// Digest mirrors Session!Msg.
type Digest struct {
	Ty     string `json:"ty"`
	Seq    int    `json:"seq"`
	Hb     int    `json:"hb"`
	Enc    string `json:"enc"`
	RefSeq int    `json:"refSeq"`
	RefTag int    `json:"refTag"`
	Trid   []int  `json:"trid"`
	B      int    `json:"b"`
	E      int    `json:"e"`
	DupOf  int    `json:"dupOf"`
	T      int64  `json:"t"`
	Sender string `json:"sender"`
	Target string `json:"target"`
	Time   string `json:"time"`
	TimeB  []int  `json:"timeB"` // the bytes of SendingTime (for the trace specifications)
	Framed bool   `json:"framed"` // BodyLength and CheckSum verified by the tokenizer
	User   string `json:"user"`
	Pass   string `json:"pass"`
	NF     int    `json:"nf"` // number of fields
}

func Split(raw []byte) (tags []string, vals [][]byte, ok bool) {
	if len(raw) == 0 || raw[len(raw)-1] != 1 {
		return nil, nil, false
	}
	for _, seg := range bytes.Split(raw[:len(raw)-1], []byte{1}) {
		i := bytes.IndexByte(seg, '=')
		if i < 0 {
			return nil, nil, false
		}
		tags = append(tags, string(seg[:i]))
		vals = append(vals, seg[i+1:])
	}
	return tags, vals, true
}

func atoiOr(b []byte, def int) int {
	n, err := strconv.Atoi(string(b))
	if err != nil {
		return def
	}
	return n
}

func MakeDigest(raw []byte) Digest {
	d := Digest{Seq: -1, Hb: -1, RefSeq: -1, RefTag: -1, B: -1, E: -1, Trid: []int{}, TimeB: []int{}}
	tags, vals, ok := Split(raw)
	if !ok {
		d.Ty = "?"
		return d
	}
	d.NF = len(tags)
	first := map[string][]byte{}
	for i, t := range tags {
		if _, dup := first[t]; !dup {
			first[t] = vals[i]
		}
	}
	d.Ty = string(first["35"])
	if v, ok := first["34"]; ok {
		d.Seq = atoiOr(v, -1)
	}
	if v, ok := first["108"]; ok {
		d.Hb = atoiOr(v, -1)
	}
	d.Enc = string(first["98"])
	if v, ok := first["45"]; ok {
		d.RefSeq = atoiOr(v, -1)
	}
	if v, ok := first["371"]; ok {
		d.RefTag = atoiOr(v, -1)
	}
	if v, ok := first["112"]; ok {
		for _, c := range v {
			d.Trid = append(d.Trid, int(c))
		}
	}
	if v, ok := first["7"]; ok {
		d.B = atoiOr(v, -1)
	}
	if v, ok := first["16"]; ok {
		d.E = atoiOr(v, -1)
	}
	d.Sender, d.Target, d.Time = string(first["49"]), string(first["56"]), string(first["52"])
	for _, c := range first["52"] {
		d.TimeB = append(d.TimeB, int(c))
	}
	d.User, d.Pass = string(first["553"]), string(first["554"])
	// framing check (first three tags, last tag, length, checksum)
	n := len(tags)
	if n >= 4 && tags[0] == "8" && tags[1] == "9" && tags[2] == "35" && tags[n-1] == "10" && len(vals[n-1]) == 3 {
		pre := len(raw) - 7
		sum := 0
		for _, b := range raw[:pre] {
			sum += int(b)
		}
		hdr := len("8=") + len(vals[0]) + 1 + len("9=") + len(vals[1]) + 1
		d.Framed = atoiOr(vals[1], -1) == pre-hdr && fmt.Sprintf("%03d", sum%256) == string(vals[n-1])
	}
	return d
}
