package sess

import (
	"bytes"
	"context"
	"errors"
	"runtime"
	"strconv"
	"sync"
	"sync/atomic"
	"testing"
	"testing/synctest"
	"time"

	simplefixgo "github.com/b2broker/simplefix-go"
	"github.com/b2broker/simplefix-go/fix"
	"github.com/b2broker/simplefix-go/fix/encoding"
	"github.com/b2broker/simplefix-go/session"
	"github.com/b2broker/simplefix-go/session/messages"
	"github.com/b2broker/simplefix-go/storages/memory"
	fixgen "github.com/b2broker/simplefix-go/tests/fix44"
	"github.com/b2broker/simplefix-go/utils"
)

type Cfg struct {
	Role     string   `json:"role"` // acceptor | initiator
	HbMin    int      `json:"hbMin"`
	HbMax    int      `json:"hbMax"`
	HbCfg    int      `json:"hbCfg"`
	EncCfg   string   `json:"encCfg"`
	Allowed  []string `json:"allowed"`
	CloseMs  int      `json:"closeMs"`
	StartSeq int      `json:"startSeq"` // outgoing counter / foreign messages already in the shared store
	Buf      int      `json:"buf"`
	Yield    int      `json:"yield"` // >0: the stores yield the processor up to this many times inside every call
	// SaveFailFrom: the message store refuses every Save from this one on (0: never)
	SaveFailFrom int `json:"saveFailFrom"`
	// Creds: which credentials an initiator is configured with: "" = user name and password, "useronly", "passonly", "none"
	Creds string `json:"creds"`
	// SaveFailOnly: the message store refuses exactly this Save (0: none)
	SaveFailOnly int `json:"saveFailOnly"`
	// CtrFailOnly: the counter store refuses exactly this SetSeqNum of the incoming counter (0: none)
	CtrFailOnly int `json:"ctrFailOnly"`
	// EvFalse: the application's state-change callbacks return false (they consume the event: callbacks registered later are not called)
	EvFalse bool `json:"evFalse"`
	// NonStrict: the application installs a non-strict unmarshaller (Session.SetUnmarshaller); LaxStore: its message store answers a
	// range it cannot serve with an empty list and no error; BlockCb: (lifecycle rig) its incoming callback blocks until the handler ends
	NonStrict bool `json:"nonStrict"`
	// ImposeHb: the application's logon callback overwrites the heartbeat interval of the settings it is handed (0: it does not)
	ImposeHb int `json:"imposeHb"`
	LaxStore  bool `json:"laxStore"`
	// ResetFlag: an initiating application sets LogonSettings.ResetSeqNumFlag
	ResetFlag bool `json:"resetFlag"`
	// Stamp: the application registers an outgoing handler that amends every message (sets SenderSubID), the documented purpose
	// of HandleOutgoing: what is transmitted, stored and later retransmitted is the amended message
	Stamp bool `json:"stamp"`
	// RemoveDance: before the session is created the application registers incoming handlers for an application type and for
	// TestRequest; right after Run it removes ITS TestRequest handler again with the id it was given (the session's own must stay)
	RemoveDance bool `json:"removeDance"`
	// SlowLogonMs: the application's logon callback takes this long (virtual time); local calls made meanwhile overlap with it
	SlowLogonMs int `json:"slowLogonMs"`
}

// failOnceCounter: an application counter store one of whose updates of the incoming counter fails (and the next one works again)
type failOnceCounter struct {
	session.CounterStorage
	mu   sync.Mutex
	only int
	n    int
}

func (f *failOnceCounter) SetSeqNum(id fix.StorageID, n int) error {
	if id.Side == fix.Incoming {
		f.mu.Lock()
		f.n++
		k := f.n
		f.mu.Unlock()
		if k == f.only {
			return errors.New("counter store: write failed")
		}
	}
	return f.CounterStorage.SetSeqNum(id, n)
}

// one unmarshaller object per strictness for the whole application (Session.SetUnmarshaller on every session)
var sharedUnmarshaller = map[bool]*encoding.DefaultUnmarshaller{true: encoding.NewDefaultUnmarshaller(true), false: encoding.NewDefaultUnmarshaller(false)}

// SharedUnmarshaller is the application-wide unmarshaller object of the given strictness.
func SharedUnmarshaller(strict bool) *encoding.DefaultUnmarshaller { return sharedUnmarshaller[strict] }

// laxStore: a message store that answers a range it cannot serve (inverted, beyond what is stored) with nothing, not with an error
type laxStore struct{ session.MessageStorage }

func (l laxStore) Messages(id fix.StorageID, from, to int) ([]simplefixgo.SendingMessage, error) {
	m, err := l.MessageStorage.Messages(id, from, to)
	if err != nil {
		return []simplefixgo.SendingMessage{}, nil
	}
	return m, nil
}

// failFromStore: an application store that starts failing (a disk that filled up, a database that went away)
type failFromStore struct {
	session.MessageStorage
	mu   sync.Mutex
	n    int
	from int
	only int
}

func (f *failFromStore) Save(id fix.StorageID, msg simplefixgo.SendingMessage, seq int) error {
	f.mu.Lock()
	f.n++
	fail := (f.from > 0 && f.n >= f.from) || (f.only > 0 && f.n == f.only)
	f.mu.Unlock()
	if fail {
		return errors.New("store: cannot save")
	}
	return f.MessageStorage.Save(id, msg, seq)
}

// yieldingStore delays inside the application's stores (scheduler yields only: a virtual-time sleep
// while the session holds its lock would stall a synctest bubble).
type yieldingStore struct {
	*memory.Storage
	n   int
	ctr uint32
}

func (y *yieldingStore) pause() {
	k := int(atomic.AddUint32(&y.ctr, 2654435761)>>16) % (y.n + 1)
	for i := 0; i < k; i++ {
		runtime.Gosched()
	}
}

func (y *yieldingStore) GetNextSeqNum(id fix.StorageID) (int, error) {
	n, err := y.Storage.GetNextSeqNum(id)
	y.pause()
	return n, err
}

func (y *yieldingStore) Save(id fix.StorageID, msg simplefixgo.SendingMessage, seq int) error {
	y.pause()
	err := y.Storage.Save(id, msg, seq)
	y.pause()
	return err
}

type Scenario struct {
	ID    string   `json:"id"`
	Cfg   Cfg      `json:"cfg"`
	Steps []Action `json:"steps"`
}

type EvObs struct {
	E string `json:"e"`
	T int64  `json:"t"`
}

type StepObs struct {
	K      string   `json:"k"` // "step"
	ID     string   `json:"id"`
	I      int      `json:"i"`
	A      Action   `json:"a"`
	T      int64    `json:"t"`
	Outs   []Digest `json:"outs"`
	Logged bool     `json:"logged"`
	Ctx    bool     `json:"ctx"`  // session context done
	HCtx   bool     `json:"hctx"` // handler context done
	Events []EvObs  `json:"events"`
	Err    bool     `json:"err"` // the local call returned an error
	Saves  []int    `json:"saves"`
}

type InitObs struct {
	K   string `json:"k"` // "init"
	ID  string `json:"id"`
	Cfg Cfg    `json:"cfg"`
}

func mustInt(s string) int {
	i, err := strconv.Atoi(s)
	if err != nil {
		panic(err)
	}
	return i
}

// Opts mirrors tests/opts.go (session options over the generated fix44 package).
func Opts(allowed []string) *session.Opts {
	am := map[string]struct{}{}
	for _, a := range allowed {
		am[a] = struct{}{}
	}
	return &session.Opts{
		MessageBuilders: session.MessageBuilders{
			HeaderBuilder:        fixgen.Header{}.New(),
			TrailerBuilder:       fixgen.Trailer{}.New(),
			LogonBuilder:         fixgen.Logon{}.New(),
			LogoutBuilder:        fixgen.Logout{}.New(),
			RejectBuilder:        fixgen.Reject{}.New(),
			HeartbeatBuilder:     fixgen.Heartbeat{}.New(),
			TestRequestBuilder:   fixgen.TestRequest{}.New(),
			ResendRequestBuilder: fixgen.ResendRequest{}.New(),
			SequenceResetBuilder: fixgen.SequenceReset{}.New(), // optional in the library; configured as a complete application would
		},
		Tags: &messages.Tags{
			MsgType:         mustInt(fixgen.FieldMsgType),
			MsgSeqNum:       mustInt(fixgen.FieldMsgSeqNum),
			HeartBtInt:      mustInt(fixgen.FieldHeartBtInt),
			EncryptedMethod: mustInt(fixgen.FieldEncryptMethod),
		},
		AllowedEncryptedMethods: am,
		SessionErrorCodes: &messages.SessionErrorCodes{
			InvalidTagNumber:         0,
			RequiredTagMissing:       1,
			UndefinedTag:             3,
			TagSpecialWithoutValue:   4,
			IncorrectValue:           5,
			IncorrectDataFormatValue: 6,
			DecryptionProblem:        7,
			SignatureProblem:         8,
			CompIDProblem:            9,
			Other:                    99,
		},
	}
}

// Rig is one running handler + session with its observation log.
type Rig struct {
	H     *simplefixgo.DefaultHandler
	S     *session.Session
	Store *memory.Storage
	start time.Time

	mu     sync.Mutex
	outs   []Digest
	raws   [][]byte
	all    [][]byte // every message ever seen on Outgoing(), for dupOf
	events []EvObs
	errs   []string
	cancel context.CancelFunc
	done   chan struct{}
	wg     sync.WaitGroup
	removeID int64
	outHooks [2]int64 // RemoveDance: two all-types outgoing handlers of the application
	cfg      Cfg
	mid    *Action // armed: inject this inbound message when the next outbound message passes the outgoing handlers
	nsend  int     // application sends so far
	// Ctx0 is the session context the application obtained BEFORE anything happened (Session.Context() right after construction):
	// "cancels the session's context" is judged on it - an application that keeps the context it took at start-up must see the end
	Ctx0 context.Context
}

// ParsedRequest returns an application message whose fields - header included - were populated by parsing: a message received
// elsewhere and passed on through this session.  Its old number, identifiers and time are what the session has to replace.
func ParsedRequest(id string) *fixgen.MarketDataRequest {
	src := fixgen.NewMarketDataRequest().SetMDReqID(id)
	src.HeaderBuilder().SetFieldMsgSeqNum(4242).SetFieldSenderCompID("OLDS").SetFieldTargetCompID("OLDT").SetFieldSendingTime("19990101-00:00:00.000")
	b, err := src.ToBytes()
	if err != nil {
		panic(err)
	}
	m := fixgen.NewMarketDataRequest()
	if err := encoding.Unmarshal(m, b); err != nil {
		panic(err)
	}
	return m
}

func (r *Rig) ms() int64 { return time.Since(r.start).Milliseconds() }

const peerID, ourID = "PEER", "SRV"

// NewRig builds the real objects exactly as an application would.
func NewRig(cfg Cfg) (*Rig, error) {
	r := &Rig{start: time.Now(), done: make(chan struct{}), cfg: cfg}
	ctx, cancel := context.WithCancel(context.Background())
	r.cancel = cancel
	r.Store = memory.NewStorage()
	for n := 1; n <= cfg.StartSeq; n++ { // messages of an earlier / parallel session in the shared store
		m := fixgen.CreateHeartbeat()
		m.HeaderBuilder().SetFieldMsgSeqNum(n).SetFieldSenderCompID("OTHER").SetFieldTargetCompID("THIRD")
		_ = r.Store.Save(fix.StorageID{Sender: "OTHER", Target: "THIRD", Side: fix.Outgoing}, m, n)
		_, _ = r.Store.GetNextSeqNum(fix.StorageID{Side: fix.Outgoing})
	}
	allowed := cfg.Allowed
	if allowed == nil {
		allowed = []string{"0"}
	}
	var cs session.CounterStorage = r.Store
	var ms session.MessageStorage = r.Store
	if cfg.Yield > 0 {
		ys := &yieldingStore{Storage: r.Store, n: cfg.Yield}
		cs, ms = ys, ys
	}
	if cfg.SaveFailFrom > 0 || cfg.SaveFailOnly > 0 {
		ms = &failFromStore{MessageStorage: ms, from: cfg.SaveFailFrom, only: cfg.SaveFailOnly}
	}
	if cfg.CtrFailOnly > 0 {
		cs = &failOnceCounter{CounterStorage: cs, only: cfg.CtrFailOnly}
	}
	if cfg.LaxStore {
		ms = laxStore{ms}
	}
	// one options value for the whole application, as the repository's own tests and examples have it: a session of the OTHER
	// role is constructed from it first (an initiating one with an encryption method of its own, an accepting one with limits
	// of its own) and never run; what the session under test accepts and sends must not depend on that sibling
	opts := Opts(allowed)
	sibStore := memory.NewStorage()
	if cfg.Role == "acceptor" {
		sh := simplefixgo.NewInitiatorHandler(ctx, fixgen.FieldMsgType, cfg.Buf)
		_, _ = session.NewInitiatorSession(sh, opts, &session.LogonSettings{TargetCompID: "SIBT", SenderCompID: "SIBS", HeartBtInt: 7,
			EncryptMethod: "1", CloseTimeout: time.Second}, sibStore, sibStore)
	} else {
		sh := simplefixgo.NewAcceptorHandler(ctx, fixgen.FieldMsgType, cfg.Buf)
		_, _ = session.NewAcceptorSession(opts, sh, &session.LogonSettings{LogonTimeout: time.Second, CloseTimeout: time.Second,
			HeartBtLimits: &session.IntLimits{Min: 3, Max: 4}}, func(*session.LogonSettings) error { return errors.New("sibling") }, sibStore, sibStore)
	}
	var err error
	if cfg.Role == "acceptor" {
		r.H = simplefixgo.NewAcceptorHandler(ctx, fixgen.FieldMsgType, cfg.Buf)
		if cfg.RemoveDance {
			r.H.HandleIncoming("D", func([]byte) bool { return true })
			r.removeID = r.H.HandleIncoming("1", func([]byte) bool { return true })
		}
		r.S, err = session.NewAcceptorSession(opts, r.H, &session.LogonSettings{
			LogonTimeout:  time.Second * 30,
			CloseTimeout:  time.Duration(cfg.CloseMs) * time.Millisecond,
			HeartBtLimits: &session.IntLimits{Min: cfg.HbMin, Max: cfg.HbMax},
		}, func(req *session.LogonSettings) error {
			if cfg.SlowLogonMs > 0 {
				time.Sleep(time.Duration(cfg.SlowLogonMs) * time.Millisecond)
			}
			if req.Password == "bad" {
				return errors.New("refused by the application")
			}
			if cfg.ImposeHb > 0 {
				req.HeartBtInt = cfg.ImposeHb
			}
			return nil
		}, cs, ms)
	} else {
		r.H = simplefixgo.NewInitiatorHandler(ctx, fixgen.FieldMsgType, cfg.Buf)
		if cfg.RemoveDance {
			r.H.HandleIncoming("D", func([]byte) bool { return true })
			r.removeID = r.H.HandleIncoming("1", func([]byte) bool { return true })
		}
		r.S, err = session.NewInitiatorSession(r.H, opts, &session.LogonSettings{
			TargetCompID: peerID, SenderCompID: ourID,
			HeartBtInt: cfg.HbCfg, EncryptMethod: cfg.EncCfg, ResetSeqNumFlag: cfg.ResetFlag,
			Username: map[string]string{"": "user", "useronly": "user"}[cfg.Creds], Password: map[string]string{"": "good", "passonly": "good"}[cfg.Creds],
			CloseTimeout: time.Duration(cfg.CloseMs) * time.Millisecond,
		}, cs, ms)
	}
	if err != nil {
		cancel()
		return nil, err
	}
	r.S.SetUnmarshaller(sharedUnmarshaller[!cfg.NonStrict])
	r.Ctx0 = r.S.Context()
	r.S.OnError(func(e error) {
		r.mu.Lock()
		r.errs = append(r.errs, e.Error())
		r.mu.Unlock()
	})
	for ev, name := range map[utils.Event]string{utils.EventLogon: "logon", utils.EventLogout: "logout",
		utils.EventRequest: "request", utils.EventDisconnect: "disconnect"} {
		name := name
		r.S.OnChangeState(ev, func() bool {
			r.mu.Lock()
			r.events = append(r.events, EvObs{name, r.ms()})
			r.mu.Unlock()
			return !cfg.EvFalse
		})
	}
	r.H.OnStopped(func() bool {
		r.mu.Lock()
		r.events = append(r.events, EvObs{"stopped", r.ms()})
		r.mu.Unlock()
		return true
	})
	if cfg.Stamp {
		r.H.HandleOutgoing(simplefixgo.AllMsgTypes, func(m simplefixgo.SendingMessage) bool {
			if hd, ok := m.HeaderBuilder().(*fixgen.Header); ok {
				hd.SetSenderSubID("DESK-7")
			}
			return true
		})
	}
	// application-side outgoing handler: lets the peer's next message arrive while a local call is inside the send path
	r.H.HandleOutgoing(simplefixgo.AllMsgTypes, func(m simplefixgo.SendingMessage) bool {
		r.mu.Lock()
		mid := r.mid
		r.mid = nil
		r.mu.Unlock()
		if mid != nil {
			r.H.ServeIncoming(Inbound(mid, peerID, ourID, ts(time.Now())))
			for i := 0; i < 400; i++ { // scheduler yields only (no virtual-time sleep while the send lock is held)
				runtime.Gosched()
			}
		}
		return true
	})
	r.wg.Add(2)
	go func() { defer r.wg.Done(); _ = r.H.Run() }()
	go func() { // the connection's writer loop, replaced by a collector
		defer r.wg.Done()
		for {
			select {
			case raw := <-r.H.Outgoing():
				raw = append([]byte{}, raw...) // what a writer would put on the wire now
				d := MakeDigest(raw)
				d.T = r.ms()
				r.mu.Lock()
				for i, old := range r.all {
					if bytes.Equal(old, raw) {
						d.DupOf = i + 1
						break
					}
				}
				r.all = append(r.all, raw)
				r.outs = append(r.outs, d)
				r.raws = append(r.raws, raw)
				r.mu.Unlock()
			case <-r.done:
				return
			}
		}
	}()
	return r, nil
}

func (r *Rig) drain() ([]Digest, []EvObs, [][]byte) {
	r.mu.Lock()
	defer r.mu.Unlock()
	o, e, w := r.outs, r.events, r.raws
	r.outs, r.events, r.raws = nil, nil, nil
	if o == nil {
		o = []Digest{}
	}
	if e == nil {
		e = []EvObs{}
	}
	return o, e, w
}

func ts(t time.Time) string { return t.UTC().Format("20060102-15:04:05.000") }

// Do executes one action and waits for quiescence.
func (r *Rig) Do(a *Action) (callErr bool) {
	if a.Mid != "" && (a.A == "send" || a.A == "llogout") {
		m := &Action{A: a.Mid, Seq: a.MidSeq, Hb: a.Hb, Enc: "0", Cred: true, ID: []int{77}}
		m.norm()
		r.mu.Lock()
		r.mid = m
		r.mu.Unlock()
	}
	switch a.A {
	case "run":
		callErr = r.S.Run() != nil
		if r.cfg.RemoveDance {
			// two all-types outgoing handlers of the application, registered once the session runs (removed again by "rmhooks")
			r.outHooks[0] = r.H.HandleOutgoing(simplefixgo.AllMsgTypes, func(simplefixgo.SendingMessage) bool { return true })
			r.outHooks[1] = r.H.HandleOutgoing(simplefixgo.AllMsgTypes, func(simplefixgo.SendingMessage) bool { return true })
			_ = r.H.RemoveIncomingHandler("1", r.removeID)
		}
	case "send":
		m := fixgen.NewMarketDataRequest().SetMDReqID("req")
		if r.nsend++; r.nsend%3 == 2 { // every third message the application sends is one it received elsewhere
			m = ParsedRequest("req")
		}
		callErr = r.S.Send(m) != nil
	case "llogout":
		callErr = r.S.Logout() != nil
	case "stop":
		callErr = r.S.Stop() != nil
	case "relogon":
		_ = r.S.LogonRequest()
	case "rmhooks": // the application unregisters its own two all-types outgoing handlers, in the order it registered them
		if r.cfg.RemoveDance {
			_ = r.H.RemoveOutgoingHandler(simplefixgo.AllMsgTypes, r.outHooks[0])
			_ = r.H.RemoveOutgoingHandler(simplefixgo.AllMsgTypes, r.outHooks[1])
		}
	case "resetout": // the application starts a new run of outbound numbers (as it would on a ResetSeqNumFlag logon)
		_ = r.Store.ResetSeqNum(fix.StorageID{Side: fix.Outgoing})
	case "advance":
		time.Sleep(time.Duration(a.Ms) * time.Millisecond)
	default:
		r.H.ServeIncoming(Inbound(a, peerID, ourID, ts(time.Now())))
	}
	synctest.Wait()
	return callErr
}

// Close tears the rig down so that the bubble can end.
func (r *Rig) Close(hbSeconds int) {
	r.cancel()
	synctest.Wait()
	// surviving timer loops notice the cancellation only after their current timeout
	time.Sleep(time.Duration(3*hbSeconds+10) * time.Second)
	synctest.Wait()
	close(r.done)
	r.H.CloseErrorChan()
	r.wg.Wait()
	synctest.Wait()
}

// RunScenario executes a scenario inside a bubble and returns its trace records.
func RunScenario(t *testing.T, sc *Scenario) (recs []interface{}, failure string) {
	if sc.Cfg.Allowed == nil {
		sc.Cfg.Allowed = []string{"0"}
	}
	recs = append(recs, InitObs{"init", sc.ID, sc.Cfg})
	maxHb := sc.Cfg.HbMax
	if sc.Cfg.HbCfg > maxHb {
		maxHb = sc.Cfg.HbCfg
	}
	synctest.Test(t, func(t *testing.T) {
		r, err := NewRig(sc.Cfg)
		if err != nil {
			failure = "rig: " + err.Error()
			return
		}
		synctest.Wait()
		for i := range sc.Steps {
			a := sc.Steps[i]
			a.norm()
			t0 := r.ms()
			callErr := r.Do(&a)
			outs, evs, _ := r.drain()
			recs = append(recs, StepObs{K: "step", ID: sc.ID, I: i + 1, A: a, T: t0, Outs: outs,
				Logged: r.S.IsLogged(), Ctx: r.Ctx0.Err() != nil, HCtx: r.H.Context().Err() != nil,
				Events: evs, Err: callErr, Saves: []int{}})
		}
		r.Close(maxHb)
	})
	return recs, failure
}
