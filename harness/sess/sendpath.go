package sess

import (
	"bytes"
	"context"
	"fmt"
	"math/rand"
	"runtime"
	"strconv"
	"sync"
	"sync/atomic"
	"testing"
	"testing/synctest"
	"time"

	simplefixgo "github.com/b2broker/simplefix-go"
	"github.com/b2broker/simplefix-go/fix"
	"github.com/b2broker/simplefix-go/session"
	"github.com/b2broker/simplefix-go/session/messages"
	"github.com/b2broker/simplefix-go/storages/memory"
	fixgen "github.com/b2broker/simplefix-go/tests/fix44"
)

// ---- C05: schedules forced at gates inside application-provided code (SendPath.tla) ----

type SPScenario struct {
	ID        string `json:"id"`
	Kind      string `json:"kind"` // gate | stress
	Role      string `json:"role"`
	Gate      string `json:"gate"` // counter | save | handler | tobytes
	N         int    `json:"n"`
	Order     []int  `json:"order"`
	StartSeq  int    `json:"startSeq"`
	Buf       int    `json:"buf"`
	PerSender int    `json:"perSender"`
	Hb        int    `json:"hb"`
	Seed      int64  `json:"seed"`
	Yield     int    `json:"yield"`
	// gate scenarios: when >= 0, after the senders listed before this position in Order have been
	// released, an inbound TestRequest is injected while the remaining senders are held at the gate
	// (the session's own reply must not overtake a message that already has its number)
	ReplyAt int `json:"replyAt"`
	// stress scenarios: every sender sends ONE message object again and again (as the repository's own highload test
	// does) instead of a fresh one per call
	Reuse bool `json:"reuse"`
}

type WireRec struct {
	Ty     string `json:"ty"`
	Seq    int    `json:"seq"`
	DupOf  int    `json:"dupOf"`
	Sender []int  `json:"sender"`
	Target []int  `json:"target"`
	Time   []int  `json:"time"`
	T      int64  `json:"t"`
	Mark   string `json:"mark"`
	Trid   []int  `json:"trid"` // TestReqID (112) bytes of a TestRequest / of the Heartbeat echoing it
	Framed bool   `json:"framed"` // BodyLength and CheckSum agree with the bytes (the harness' own tokenizer)
}

type WireObs struct {
	K         string    `json:"k"` // wire
	ID        string    `json:"id"`
	Kind      string    `json:"kind"`
	Start     int       `json:"start"`
	Virtual   bool      `json:"virtual"`
	ExpSender []int     `json:"expSender"`
	ExpTarget []int     `json:"expTarget"`
	Msgs      []WireRec `json:"msgs"`
	Expected  int       `json:"expected"` // number of application messages the senders sent
	Feasible  bool      `json:"feasible"` // the requested release order could be forced
	Gate      string    `json:"gate"`
	Order     []int     `json:"order"`
	// ExpEcho: the numbers NNN of the TestReqIDs "qNNN" sent on this connection, in order ([] = not judged): the Heartbeats that
	// echo such IDs must echo exactly these, in this order (a prefix of them when the observation ended early)
	ExpEcho []int `json:"expEcho"`
}

func goid() int {
	var buf [64]byte
	n := runtime.Stack(buf[:], false)
	f := bytes.Fields(buf[:n])
	id, _ := strconv.Atoi(string(f[1]))
	return id
}

type gates struct {
	mu       sync.Mutex
	point    string
	on       bool
	byGid    map[int]int
	arrivals chan int
	release  map[int]chan struct{}
}

func (g *gates) at(point string, who int) {
	g.mu.Lock()
	if !g.on || point != g.point || who < 0 {
		g.mu.Unlock()
		return
	}
	ch := g.release[who]
	g.mu.Unlock()
	if ch == nil {
		return
	}
	g.arrivals <- who
	<-ch
}

func (g *gates) whoByGid() int {
	g.mu.Lock()
	defer g.mu.Unlock()
	if w, ok := g.byGid[goid()]; ok {
		return w
	}
	return -1
}

type gatedCounter struct {
	*memory.Storage
	g *gates
}

func (c *gatedCounter) GetNextSeqNum(id fix.StorageID) (int, error) {
	n, err := c.Storage.GetNextSeqNum(id)
	if id.Side == fix.Outgoing {
		c.g.at("counter", c.g.whoByGid())
	}
	return n, err
}

type gatedStore struct {
	*memory.Storage
	g *gates
}

func (s *gatedStore) Save(id fix.StorageID, msg simplefixgo.SendingMessage, seq int) error {
	err := s.Storage.Save(id, msg, seq)
	if m, ok := msg.(*gatedMsg); ok {
		s.g.at("save", m.idx)
	}
	return err
}

// gatedMsg wraps an application message (the application owns its message objects).
type gatedMsg struct {
	inner *fixgen.MarketDataRequest
	idx   int
	g     *gates
}

func (m *gatedMsg) HeaderBuilder() messages.HeaderBuilder { return m.inner.HeaderBuilder() }
func (m *gatedMsg) MsgType() string                       { return m.inner.MsgType() }
func (m *gatedMsg) ToBytes() ([]byte, error) {
	b, err := m.inner.ToBytes()
	m.g.at("tobytes", m.idx)
	return b, err
}

func wireRec(raw []byte, all *[][]byte, t int64) WireRec {
	d := MakeDigest(raw)
	w := WireRec{Ty: d.Ty, Seq: d.Seq, Sender: ints([]byte(d.Sender)), Target: ints([]byte(d.Target)), Time: ints([]byte(d.Time)), T: t, Trid: d.Trid, Framed: d.Framed}
	if w.Trid == nil {
		w.Trid = []int{}
	}
	for i, old := range *all {
		if bytes.Equal(old, raw) {
			w.DupOf = i + 1
			break
		}
	}
	*all = append(*all, raw)
	tags, vals, ok := Split(raw)
	if ok {
		for i, tg := range tags {
			if tg == "262" {
				w.Mark = string(vals[i])
			}
		}
	}
	return w
}

// RunGate forces one release order at one gate, in real time (mutex waits are not durable
// blocking for synctest).  The verdict is always taken from the wire.
func RunGate(sc *SPScenario) (*WireObs, string) {
	g := &gates{point: sc.Gate, byGid: map[int]int{}, arrivals: make(chan int, 64), release: map[int]chan struct{}{}}
	ctx, cancel := context.WithCancel(context.Background())
	defer cancel()
	mem := memory.NewStorage()
	for n := 1; n <= sc.StartSeq; n++ {
		_, _ = mem.GetNextSeqNum(fix.StorageID{Side: fix.Outgoing})
	}
	cs, ms := &gatedCounter{mem, g}, &gatedStore{mem, g}
	var h *simplefixgo.DefaultHandler
	var s *session.Session
	var err error
	if sc.Role == "acceptor" {
		h = simplefixgo.NewAcceptorHandler(ctx, fixgen.FieldMsgType, sc.Buf)
		s, err = session.NewAcceptorSession(Opts([]string{"0"}), h, &session.LogonSettings{
			LogonTimeout: time.Second * 30, HeartBtLimits: &session.IntLimits{Min: 1, Max: 60}},
			func(*session.LogonSettings) error { return nil }, cs, ms)
	} else {
		h = simplefixgo.NewInitiatorHandler(ctx, fixgen.FieldMsgType, sc.Buf)
		s, err = session.NewInitiatorSession(h, Opts([]string{"0"}), &session.LogonSettings{
			TargetCompID: peerID, SenderCompID: ourID, HeartBtInt: 30, EncryptMethod: "0"}, cs, ms)
	}
	if err != nil {
		return nil, err.Error()
	}
	h.HandleOutgoing(simplefixgo.AllMsgTypes, func(m simplefixgo.SendingMessage) bool {
		if gm, ok := m.(*gatedMsg); ok {
			g.at("handler", gm.idx)
		}
		return true
	})
	var mu sync.Mutex
	var wire []WireRec
	var all [][]byte
	t0 := time.Now()
	stop := make(chan struct{})
	var wg sync.WaitGroup
	wg.Add(2)
	go func() { defer wg.Done(); _ = h.Run() }()
	go func() {
		defer wg.Done()
		for {
			select {
			case raw := <-h.Outgoing():
				raw = append([]byte{}, raw...) // what a writer would put on the wire now
				mu.Lock()
				wire = append(wire, wireRec(raw, &all, time.Since(t0).Milliseconds()))
				mu.Unlock()
			case <-stop:
				return
			}
		}
	}()
	defer func() {
		cancel()
		close(stop)
		h.CloseErrorChan()
		wg.Wait()
	}()
	_ = s.Run()
	p := Peer{}
	h.ServeIncoming(Inbound(p.next("logon", 30), peerID, ourID, ts(time.Now())))
	for i := 0; i < 400 && !s.IsLogged(); i++ {
		time.Sleep(5 * time.Millisecond)
	}
	if !s.IsLogged() {
		return nil, "gate rig: logon did not succeed"
	}
	countV := func() (nv, na int) {
		mu.Lock()
		defer mu.Unlock()
		for _, w := range wire {
			if w.Ty == "V" {
				nv++
			}
			if w.Ty == "A" {
				na++
			}
		}
		return
	}
	// IsLogged() turns true before the Logon reply is sent: wait for the reply to be on the wire
	for i := 0; i < 400; i++ {
		if _, na := countV(); na >= 1 {
			break
		}
		time.Sleep(5 * time.Millisecond)
	}

	done := make([]chan struct{}, sc.N)
	g.mu.Lock()
	for i := 0; i < sc.N; i++ {
		g.release[i] = make(chan struct{})
		done[i] = make(chan struct{})
	}
	g.on = true
	g.mu.Unlock()
	started := make(chan struct{})
	for i := 0; i < sc.N; i++ {
		i := i
		go func() {
			g.mu.Lock()
			g.byGid[goid()] = i
			g.mu.Unlock()
			<-started
			m := &gatedMsg{inner: fixgen.NewMarketDataRequest().SetMDReqID("m" + strconv.Itoa(i)), idx: i, g: g}
			_ = s.Send(m)
			close(done[i])
		}()
	}
	close(started)

	arrived := map[int]bool{}
	var arrivalOrder []int
	released := map[int]bool{}
	feasible := true
	collect := func(d time.Duration, want int) bool {
		deadline := time.After(d)
		for {
			if want >= 0 && arrived[want] {
				return true
			}
			select {
			case w := <-g.arrivals:
				arrived[w] = true
				arrivalOrder = append(arrivalOrder, w)
			case <-deadline:
				return want >= 0 && arrived[want]
			}
		}
	}
	rel := func(w int) {
		released[w] = true
		close(g.release[w])
		select {
		case <-done[w]:
		case <-time.After(300 * time.Millisecond):
		}
	}
	injectReply := func() {
		// wait until at least one sender is parked at the gate, then let the inbound path produce a reply
		collect(40*time.Millisecond, -1)
		h.ServeIncoming(Inbound(p.next("testreq", 0), peerID, ourID, ts(time.Now())))
		time.Sleep(30 * time.Millisecond)
	}
	for pos, target := range sc.Order {
		if sc.ReplyAt == pos {
			injectReply()
		}
		if released[target] {
			continue
		}
		for tries := 0; !released[target] && tries < 4*sc.N+4; tries++ {
			if collect(30*time.Millisecond, target) {
				rel(target)
				break
			}
			// the target cannot reach the gate while another sender is held there: the order is
			// infeasible on this code; let the earliest waiting sender go
			feasible = false
			progressed := false
			for _, a := range arrivalOrder {
				if !released[a] {
					rel(a)
					progressed = true
					break
				}
			}
			if !progressed {
				collect(50*time.Millisecond, target)
			}
		}
	}
	if sc.ReplyAt >= len(sc.Order) {
		injectReply()
	}
	g.mu.Lock()
	g.on = false
	g.mu.Unlock()
	for i := 0; i < sc.N; i++ {
		if !released[i] {
			released[i] = true
			close(g.release[i])
		}
	}
	for i := 0; i < sc.N; i++ {
		select {
		case <-done[i]:
		case <-time.After(3 * time.Second):
			return nil, fmt.Sprintf("gate rig: sender %d did not return", i)
		}
	}
	for i := 0; i < 600; i++ {
		if nv, _ := countV(); nv >= sc.N {
			break
		}
		time.Sleep(5 * time.Millisecond)
	}
	mu.Lock()
	defer mu.Unlock()
	o := &WireObs{K: "wire", ID: sc.ID, Kind: "gate", Start: sc.StartSeq, Virtual: false, Msgs: wire, Expected: sc.N, ExpEcho: []int{},
		Feasible: feasible, Gate: sc.Gate, Order: sc.Order}
	o.ExpSender, o.ExpTarget = ints([]byte(ourID)), ints([]byte(peerID))
	return o, ""
}

// RunStress: free-running senders, inbound replies and both timers in virtual time.
func RunStress(t *testing.T, sc *SPScenario) (obs *WireObs, failure string) {
	synctest.Test(t, func(t *testing.T) {
		r, err := NewRig(Cfg{Role: sc.Role, HbMin: 1, HbMax: 60, HbCfg: sc.Hb, EncCfg: "0", CloseMs: 1000, StartSeq: sc.StartSeq, Buf: sc.Buf, Yield: sc.Yield})
		if err != nil {
			failure = err.Error()
			return
		}
		var mu sync.Mutex
		var wire []WireRec
		var all [][]byte
		// second collector is not possible (one Outgoing reader): reuse the rig's log afterwards
		_ = r.S.Run()
		synctest.Wait()
		p := Peer{}
		r.H.ServeIncoming(Inbound(p.next("logon", sc.Hb), peerID, ourID, ts(time.Now())))
		synctest.Wait()
		if !r.S.IsLogged() {
			failure = "stress rig: logon did not succeed"
		}
		var wg sync.WaitGroup
		var okSends int64
		for i := 0; i < sc.N; i++ {
			i := i
			wg.Add(1)
			go func() {
				defer wg.Done()
				rnd := rand.New(rand.NewSource(sc.Seed*1000 + int64(i)))
				own := fixgen.NewMarketDataRequest()
				for k := 0; k < sc.PerSender; k++ {
					if rnd.Intn(3) == 0 {
						time.Sleep(time.Duration(rnd.Intn(sc.Hb*1500)) * time.Millisecond)
					}
					m := own
					if !sc.Reuse {
						m = fixgen.NewMarketDataRequest()
						if k%3 == 1 { // a message received elsewhere and passed on
							m = ParsedRequest("x")
						}
					}
					// (a send that returns an error - the session has meanwhile disconnected a peer that fell silent - is not "sent")
					if r.S.Send(m.SetMDReqID("s"+strconv.Itoa(i)+"-"+strconv.Itoa(k))) == nil {
						atomic.AddInt64(&okSends, 1)
					}
				}
			}()
		}
		wg.Add(1)
		go func() { // the peer: test requests, heartbeats, a damaged message, at random virtual instants
			defer wg.Done()
			rnd := rand.New(rand.NewSource(sc.Seed))
			for k := 0; k < sc.PerSender; k++ {
				time.Sleep(time.Duration(rnd.Intn(sc.Hb*1200)) * time.Millisecond)
				a := p.next([]string{"testreq", "hbt", "hbt", "app", "testreq", "hbt", "hbt", "app", "app", "resend"}[rnd.Intn(10)], 0)
				a.ID = []int{65 + rnd.Intn(20)}
				if a.A == "resend" { // open-ended or bounded request for what was sent so far
					// (only this session's own messages: what an earlier session left in a shared store is not the wire of this one)
					a.B = sc.StartSeq + 1 + rnd.Intn(3)
					a.E = []int{0, a.B + 1, a.B + 3, a.B + 3}[rnd.Intn(4)]
				}
				if rnd.Intn(5) == 0 {
					a.Integ = "checksum"
				}
				r.H.ServeIncoming(Inbound(a, peerID, ourID, ts(time.Now())))
			}
		}()
		wg.Wait()
		synctest.Wait()
		time.Sleep(time.Duration(sc.Hb) * 2500 * time.Millisecond) // both timers expire at least once
		synctest.Wait()
		outs, _, raws := r.drain()
		_ = outs
		r.mu.Lock()
		r.mu.Unlock()
		mu.Lock()
		for i, raw := range raws {
			wire = append(wire, wireRec(raw, &all, outs[i].T))
		}
		mu.Unlock()
		obs = &WireObs{K: "wire", ID: sc.ID, Kind: "stress", Start: sc.StartSeq, Virtual: true, Msgs: wire, ExpEcho: []int{},
			Expected: int(atomic.LoadInt64(&okSends)), Feasible: true, Gate: "", Order: []int{}}
		if sc.Role == "acceptor" {
			obs.ExpSender, obs.ExpTarget = ints([]byte(ourID)), ints([]byte(peerID))
		} else {
			obs.ExpSender, obs.ExpTarget = ints([]byte(ourID)), ints([]byte(peerID))
		}
		r.Close(sc.Hb)
	})
	return obs, failure
}

// WireRecOf is wireRec for other packages of the harness.
func WireRecOf(raw []byte, all *[][]byte, t int64) WireRec { return wireRec(raw, all, t) }

// Ints exposes ints.
func Ints(b []byte) []int { return ints(b) }

// ---- a retransmission is requested while the newest message is being serialized ----

// pauseValue is an application-provided field value (fix.Value is an interface): its FIRST serialization reports that it has
// begun and waits until it is released - the message is then in the middle of being serialized (its number taken, stored,
// its header already measured), which is where an inbound ResendRequest reaches the session.
type pauseValue struct {
	inner   *fix.String
	once    sync.Once
	entered chan struct{}
	release chan struct{}
}

func (p *pauseValue) ToBytes() []byte {
	p.once.Do(func() {
		close(p.entered)
		select {
		case <-p.release:
		case <-time.After(3 * time.Second):
		}
	})
	return p.inner.ToBytes()
}

func (p *pauseValue) FromBytes(d []byte) error { return p.inner.FromBytes(d) }
func (p *pauseValue) Value() interface{}       { return p.inner.Value() }
func (p *pauseValue) String() string           { return p.inner.String() }
func (p *pauseValue) IsNull() bool             { return p.inner.IsNull() }
func (p *pauseValue) Set(v interface{}) error  { return p.inner.Set(v) }

// RunMidSer: logon, a few messages, then one message whose serialization pauses; meanwhile the peer asks for everything sent so
// far (EndSeqNo = 0: up to the last message sent - which is the one being serialized); the serialization goes on. Everything on
// the wire is judged by WireTrace (numbering of first transmissions, identifiers, framing).
func RunMidSer(sc *SPScenario) (*WireObs, string) {
	ctx, cancel := context.WithCancel(context.Background())
	defer cancel()
	mem := memory.NewStorage()
	var h *simplefixgo.DefaultHandler
	var s *session.Session
	var err error
	if sc.Role == "acceptor" {
		h = simplefixgo.NewAcceptorHandler(ctx, fixgen.FieldMsgType, sc.Buf)
		s, err = session.NewAcceptorSession(Opts([]string{"0"}), h, &session.LogonSettings{
			LogonTimeout: time.Second * 30, HeartBtLimits: &session.IntLimits{Min: 1, Max: 60}},
			func(*session.LogonSettings) error { return nil }, mem, mem)
	} else {
		h = simplefixgo.NewInitiatorHandler(ctx, fixgen.FieldMsgType, sc.Buf)
		s, err = session.NewInitiatorSession(h, Opts([]string{"0"}), &session.LogonSettings{
			TargetCompID: peerID, SenderCompID: ourID, HeartBtInt: 30, EncryptMethod: "0"}, mem, mem)
	}
	if err != nil {
		return nil, err.Error()
	}
	var mu sync.Mutex
	var wire []WireRec
	var all [][]byte
	t0 := time.Now()
	stop := make(chan struct{})
	var wg sync.WaitGroup
	wg.Add(2)
	go func() { defer wg.Done(); _ = h.Run() }()
	go func() {
		defer wg.Done()
		for {
			select {
			case raw := <-h.Outgoing():
				raw = append([]byte{}, raw...)
				mu.Lock()
				wire = append(wire, wireRec(raw, &all, time.Since(t0).Milliseconds()))
				mu.Unlock()
			case <-stop:
				return
			}
		}
	}()
	defer func() {
		cancel()
		close(stop)
		h.CloseErrorChan()
		wg.Wait()
	}()
	_ = s.Run()
	p := Peer{}
	h.ServeIncoming(Inbound(p.next("logon", 30), peerID, ourID, ts(time.Now())))
	for i := 0; i < 400 && !s.IsLogged(); i++ {
		time.Sleep(5 * time.Millisecond)
	}
	if !s.IsLogged() {
		return nil, "mid-serialization rig: logon did not succeed"
	}
	nwire := func() int { mu.Lock(); defer mu.Unlock(); return len(wire) }
	waitWire := func(n int) {
		for i := 0; i < 400 && nwire() < n; i++ {
			time.Sleep(5 * time.Millisecond)
		}
	}
	waitWire(1)
	sent := 0
	for i := 0; i < sc.N; i++ {
		if s.Send(fixgen.NewMarketDataRequest().SetMDReqID("m"+strconv.Itoa(i))) == nil {
			sent++
		}
	}
	waitWire(1 + sc.N)
	// the message that pauses in the middle of its serialization
	m := fixgen.NewMarketDataRequest().SetMDReqID("paused")
	pv := &pauseValue{inner: fix.NewString("paused"), entered: make(chan struct{}), release: make(chan struct{})}
	placed := false
	for _, it := range m.Body() {
		if kv, ok := it.(*fix.KeyValue); ok && kv.Key == "262" {
			kv.Value = pv
			placed = true
		}
	}
	if !placed {
		return nil, "mid-serialization rig: MDReqID not found in the message body"
	}
	sendDone := make(chan struct{})
	go func() {
		if s.Send(m) == nil {
			mu.Lock()
			sent++
			mu.Unlock()
		}
		close(sendDone)
	}()
	select {
	case <-pv.entered:
	case <-time.After(2 * time.Second):
		return nil, "mid-serialization rig: the serialization never began"
	}
	a := p.next("resend", 0)
	a.B, a.E = 1, 0
	inDone := make(chan struct{})
	go func() { h.ServeIncoming(Inbound(a, peerID, ourID, ts(time.Now()))); close(inDone) }()
	time.Sleep(30 * time.Millisecond) // the dispatch goroutine has taken the request (it may be waiting for the handler's lock)
	close(pv.release)
	select {
	case <-sendDone:
	case <-time.After(3 * time.Second):
	}
	select {
	case <-inDone:
	case <-time.After(time.Second):
	}
	time.Sleep(100 * time.Millisecond)
	mu.Lock()
	defer mu.Unlock()
	o := &WireObs{K: "wire", ID: sc.ID, Kind: "midser", Start: 0, Virtual: false, Msgs: wire, Expected: sent, Feasible: true, Gate: "", Order: []int{}, ExpEcho: []int{},
		ExpSender: ints([]byte(ourID)), ExpTarget: ints([]byte(peerID))}
	if o.Msgs == nil {
		o.Msgs = []WireRec{}
	}
	return o, ""
}
