package sess

import (
	"time"
	"fmt"
	"runtime"
	"bufio"
	"encoding/json"
	"os"
	"strconv"
	"testing"
)

// TestScenarios replays the scenarios of $VERIF_SCN (ndjson) on the real session and writes
// the recorded trace to $VERIF_TRACE.  $VERIF_SHARD = "i/n" takes every n-th scenario.
func TestScenarios(t *testing.T) {
	scn, out := os.Getenv("VERIF_SCN"), os.Getenv("VERIF_TRACE")
	if scn == "" || out == "" {
		t.Skip("VERIF_SCN / VERIF_TRACE not set")
	}
	shard, of := 0, 1
	if s := os.Getenv("VERIF_SHARD"); s != "" {
		for i := 0; i < len(s); i++ {
			if s[i] == '/' {
				shard, _ = strconv.Atoi(s[:i])
				of, _ = strconv.Atoi(s[i+1:])
			}
		}
	}
	in, err := os.Open(scn)
	if err != nil {
		t.Fatal(err)
	}
	defer in.Close()
	f, err := os.Create(out)
	if err != nil {
		t.Fatal(err)
	}
	defer f.Close()
	w := bufio.NewWriterSize(f, 1<<20)
	defer w.Flush()
	enc := json.NewEncoder(w)
	sc := bufio.NewScanner(in)
	sc.Buffer(make([]byte, 1<<20), 1<<26)
	n := 0
	for sc.Scan() {
		if len(sc.Bytes()) == 0 {
			continue
		}
		n++
		if (n-1)%of != shard {
			continue
		}
		var s Scenario
		if err := json.Unmarshal(sc.Bytes(), &s); err != nil {
			t.Fatalf("DRIVER-ERROR bad scenario line %d: %v", n, err)
		}
		unwatch := watch(s.ID)
		recs, failure := RunScenario(t, &s)
		unwatch()
		if failure != "" {
			t.Fatalf("DRIVER-ERROR scenario %s: %s", s.ID, failure)
		}
		for _, r := range recs {
			if err := enc.Encode(r); err != nil {
				t.Fatal(err)
			}
		}
	}
}

// TestDispatch replays C19 scenarios ($VERIF_SCN) and writes the call/save/wire logs to $VERIF_TRACE.
func TestDispatch(t *testing.T) {
	scn, out := os.Getenv("VERIF_SCN"), os.Getenv("VERIF_TRACE")
	if scn == "" || out == "" {
		t.Skip("VERIF_SCN / VERIF_TRACE not set")
	}
	shard, of := shardOf()
	in, err := os.Open(scn)
	if err != nil {
		t.Fatal(err)
	}
	defer in.Close()
	f, err := os.Create(out)
	if err != nil {
		t.Fatal(err)
	}
	defer f.Close()
	w := bufio.NewWriterSize(f, 1<<20)
	defer w.Flush()
	enc := json.NewEncoder(w)
	sc := bufio.NewScanner(in)
	sc.Buffer(make([]byte, 1<<20), 1<<26)
	n := 0
	for sc.Scan() {
		if len(sc.Bytes()) == 0 {
			continue
		}
		n++
		if (n-1)%of != shard {
			continue
		}
		var s DScenario
		if err := json.Unmarshal(sc.Bytes(), &s); err != nil {
			t.Fatalf("DRIVER-ERROR bad scenario line %d: %v", n, err)
		}
		if s.Handlers == nil {
			s.Handlers = []HSpec{}
		}
		unwatch := watch(s.ID)
		recs, failure := RunDispatch(t, &s)
		unwatch()
		if failure != "" {
			t.Fatalf("DRIVER-ERROR scenario %s: %s", s.ID, failure)
		}
		for _, r := range recs {
			if err := enc.Encode(r); err != nil {
				t.Fatal(err)
			}
		}
	}
}

func shardOf() (int, int) {
	shard, of := 0, 1
	if s := os.Getenv("VERIF_SHARD"); s != "" {
		for i := 0; i < len(s); i++ {
			if s[i] == '/' {
				shard, _ = strconv.Atoi(s[:i])
				of, _ = strconv.Atoi(s[i+1:])
			}
		}
	}
	return shard, of
}

// TestSendPath replays C05 scenarios: forced gate schedules (real time) and stress runs (virtual time).
func TestSendPath(t *testing.T) {
	scn, out := os.Getenv("VERIF_SCN"), os.Getenv("VERIF_TRACE")
	if scn == "" || out == "" {
		t.Skip("VERIF_SCN / VERIF_TRACE not set")
	}
	shard, of := shardOf()
	in, err := os.Open(scn)
	if err != nil {
		t.Fatal(err)
	}
	defer in.Close()
	f, err := os.Create(out)
	if err != nil {
		t.Fatal(err)
	}
	defer f.Close()
	w := bufio.NewWriterSize(f, 1<<20)
	defer w.Flush()
	enc := json.NewEncoder(w)
	sc := bufio.NewScanner(in)
	sc.Buffer(make([]byte, 1<<20), 1<<26)
	n := 0
	for sc.Scan() {
		if len(sc.Bytes()) == 0 {
			continue
		}
		n++
		if (n-1)%of != shard {
			continue
		}
		var s SPScenario
		if err := json.Unmarshal(sc.Bytes(), &s); err != nil {
			t.Fatalf("DRIVER-ERROR bad scenario line %d: %v", n, err)
		}
		var o *WireObs
		var failure string
		if s.Kind == "gate" {
			o, failure = RunGate(&s)
		} else if s.Kind == "midser" {
			o, failure = RunMidSer(&s)
		} else {
			unwatch := watch(s.ID)
			o, failure = RunStress(t, &s)
			unwatch()
		}
		if failure != "" {
			t.Fatalf("DRIVER-ERROR scenario %s: %s", s.ID, failure)
		}
		if o.Order == nil {
			o.Order = []int{}
		}
		if o.Msgs == nil {
			o.Msgs = []WireRec{}
		}
		if err := enc.Encode(o); err != nil {
			t.Fatal(err)
		}
	}
}

// TestDuplex runs duplex scenarios (two real sessions talking to each other) and writes both sides' traces.
func TestDuplex(t *testing.T) {
	scn, out := os.Getenv("VERIF_SCN"), os.Getenv("VERIF_TRACE")
	if scn == "" || out == "" {
		t.Skip("VERIF_SCN / VERIF_TRACE not set")
	}
	shard, of := shardOf()
	in, err := os.Open(scn)
	if err != nil {
		t.Fatal(err)
	}
	defer in.Close()
	f, err := os.Create(out)
	if err != nil {
		t.Fatal(err)
	}
	defer f.Close()
	w := bufio.NewWriterSize(f, 1<<20)
	defer w.Flush()
	enc := json.NewEncoder(w)
	sc := bufio.NewScanner(in)
	sc.Buffer(make([]byte, 1<<20), 1<<26)
	n := 0
	for sc.Scan() {
		if len(sc.Bytes()) == 0 {
			continue
		}
		n++
		if (n-1)%of != shard {
			continue
		}
		var s DuplexScenario
		if err := json.Unmarshal(sc.Bytes(), &s); err != nil {
			t.Fatalf("DRIVER-ERROR bad scenario line %d: %v", n, err)
		}
		unwatch := watch(s.ID)
		recs, failure := RunDuplex(t, &s)
		unwatch()
		if failure != "" {
			t.Fatalf("DRIVER-ERROR scenario %s: %s", s.ID, failure)
		}
		for _, r := range recs {
			if err := enc.Encode(r); err != nil {
				t.Fatal(err)
			}
		}
	}
}


// watch: a scenario runs in virtual time and takes milliseconds of real time.  One that does not finish within hangAfter of REAL
// time has a goroutine of the library blocked for good on something that is not a durable wait of the bubble (a mutex that is never
// released): the virtual clock cannot advance any more.  The stacks are printed for the checks and the process ends.
const hangAfter = 90 * time.Second

func watch(id string) func() {
	done := make(chan struct{})
	go func() {
		select {
		case <-done:
		case <-time.After(hangAfter):
			buf := make([]byte, 1<<20)
			n := runtime.Stack(buf, true)
			fmt.Printf("LIBRARY-HANG scenario %s did not finish within %s of real time\n%s\nEND-OF-STACKS\n", id, hangAfter, buf[:n])
			os.Exit(3)
		}
	}()
	return func() { close(done) }
}
