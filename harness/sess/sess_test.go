package sess

import (
	"bufio"
	"encoding/json"
	"os"
	"strconv"
	"testing"
)

// TestScenarios replays the scenarios of $VERIF_SCN (ndjson) on the real session and writes
// the recorded trace to $VERIF_TRACE.  $VERIF_SHARD = "i/n" takes every n-th scenario.
func TestScenarios(t *testing.T) {
	scn, out := os.Getenv("VERIF_SCN"), os.Getenv("VERIF_TRACE")
	if scn == "" || out == "" {
		t.Skip("VERIF_SCN / VERIF_TRACE not set")
	}
	shard, of := 0, 1
	if s := os.Getenv("VERIF_SHARD"); s != "" {
		for i := 0; i < len(s); i++ {
			if s[i] == '/' {
				shard, _ = strconv.Atoi(s[:i])
				of, _ = strconv.Atoi(s[i+1:])
			}
		}
	}
	in, err := os.Open(scn)
	if err != nil {
		t.Fatal(err)
	}
	defer in.Close()
	f, err := os.Create(out)
	if err != nil {
		t.Fatal(err)
	}
	defer f.Close()
	w := bufio.NewWriterSize(f, 1<<20)
	defer w.Flush()
	enc := json.NewEncoder(w)
	sc := bufio.NewScanner(in)
	sc.Buffer(make([]byte, 1<<20), 1<<26)
	n := 0
	for sc.Scan() {
		if len(sc.Bytes()) == 0 {
			continue
		}
		n++
		if (n-1)%of != shard {
			continue
		}
		var s Scenario
		if err := json.Unmarshal(sc.Bytes(), &s); err != nil {
			t.Fatalf("DRIVER-ERROR bad scenario line %d: %v", n, err)
		}
		recs, failure := RunScenario(t, &s)
		if failure != "" {
			t.Fatalf("DRIVER-ERROR scenario %s: %s", s.ID, failure)
		}
		for _, r := range recs {
			if err := enc.Encode(r); err != nil {
				t.Fatal(err)
			}
		}
	}
}
