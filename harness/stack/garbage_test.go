//go:build verif

package stack

// Arbitrary byte strings on the inbound path of a running session (C11: "no message a peer can send makes the session's inbound
// path panic"): (a) written to a real connection of a real Acceptor with a session, before and after a proper Logon, so that they
// pass through the connection's reader first; (b) handed to DefaultHandler.ServeIncoming of a running handler + session as one
// message.  A panic in any goroutine of the library ends this process with its stack trace, which is what the check looks for;
// the driver itself only reports how far it got and whether the acceptor still serves a fresh connection afterwards.

import (
	"context"
	"encoding/json"
	"errors"
	"net"
	"os"
	"path/filepath"
	"sync"
	"testing"
	"time"

	simplefixgo "github.com/b2broker/simplefix-go"
	"github.com/b2broker/simplefix-go/session"
	"github.com/b2broker/simplefix-go/storages/memory"
	fixgen "github.com/b2broker/simplefix-go/tests/fix44"

	"verifharness/sess"
)

type garbageIn struct {
	Inputs [][]int `json:"inputs"`
}

type garbageOut struct {
	Wire         int  `json:"wire"`         // inputs written to a connection
	Direct       int  `json:"direct"`       // inputs handed to ServeIncoming
	StillServing bool `json:"stillServing"` // a fresh connection can still log on after all of it
	Blocked      int  `json:"blocked"`      // ServeIncoming calls that did not return within 2 s
}

func toBytes(a []int) []byte {
	b := make([]byte, len(a))
	for i, c := range a {
		b[i] = byte(c)
	}
	return b
}

func logonBytes(seq int) []byte {
	a := &sess.Action{A: "logon", Seq: seq, Sq: "ok", Integ: "none", Hb: 30, Enc: "0", Cred: true, ID: []int{}}
	return sess.Inbound(a, "PEER", "SRV", tsNow())
}

func newAcceptorSession(h simplefixgo.AcceptorHandler) (*session.Session, error) {
	store := memory.NewStorage()
	s, err := session.NewAcceptorSession(sharedOpts([]string{"0"}), h, &session.LogonSettings{
		LogonTimeout:  30 * time.Second,
		HeartBtLimits: &session.IntLimits{Min: 1, Max: 60},
	}, func(*session.LogonSettings) error { return nil }, store, store)
	if err != nil {
		return nil, err
	}
	return s, s.Run()
}

func TestWireGarbage(t *testing.T) {
	in, outDir := os.Getenv("VERIF_STACK_IN"), os.Getenv("VERIF_STACK_OUT")
	if in == "" || outDir == "" {
		t.Skip("VERIF_STACK_IN / VERIF_STACK_OUT not set")
	}
	data, err := os.ReadFile(in)
	if err != nil {
		t.Fatal(err)
	}
	var gi garbageIn
	if err := json.Unmarshal(data, &gi); err != nil {
		t.Fatal(err)
	}
	var out garbageOut
	l, err := net.Listen("tcp", "127.0.0.1:0")
	if err != nil {
		t.Fatal(err)
	}
	acc := simplefixgo.NewAcceptor(l, simplefixgo.NewAcceptorHandlerFactory(fixgen.FieldMsgType, 10), 2*time.Second,
		func(h simplefixgo.AcceptorHandler) { _, _ = newAcceptorSession(h) })
	go func() { _ = acc.ListenAndServe() }()
	defer func() { acc.Close(); l.Close() }()

	// (a) over the wire: 16 peers at a time, each input on a connection of its own, half of them after a proper Logon
	var wg sync.WaitGroup
	sem := make(chan struct{}, 16)
	var mu sync.Mutex
	for i, inp := range gi.Inputs {
		wg.Add(1)
		sem <- struct{}{}
		go func(i int, raw []byte) {
			defer wg.Done()
			defer func() { <-sem }()
			c, err := net.Dial("tcp", l.Addr().String())
			if err != nil {
				return
			}
			defer c.Close()
			_ = c.SetDeadline(time.Now().Add(2 * time.Second))
			if i%2 == 0 {
				_, _ = c.Write(logonBytes(1))
				buf := make([]byte, 4096)
				_, _ = c.Read(buf) // the Logon answer
			}
			_, _ = c.Write(raw)
			// something well formed behind it, so that a reader waiting for more bytes gets them
			a := &sess.Action{A: "testreq", Seq: 2, Sq: "ok", Integ: "none", Enc: "0", Cred: true, ID: []int{65}}
			_, _ = c.Write(sess.Inbound(a, "PEER", "SRV", tsNow()))
			_ = c.SetReadDeadline(time.Now().Add(30 * time.Millisecond))
			buf := make([]byte, 4096)
			_, _ = c.Read(buf)
			mu.Lock()
			out.Wire++
			mu.Unlock()
		}(i, toBytes(inp))
	}
	wg.Wait()

	// (b) as one message into a running handler + session
	for i, inp := range gi.Inputs {
		ctx, cancel := context.WithCancel(context.Background())
		h := simplefixgo.NewAcceptorHandler(ctx, fixgen.FieldMsgType, 10)
		if _, err := newAcceptorSession(h); err != nil {
			cancel()
			t.Fatal(err)
		}
		go func() { _ = h.Run() }()
		go func() {
			for {
				select {
				case <-h.Outgoing():
				case <-ctx.Done():
					return
				}
			}
		}()
		if i%2 == 0 {
			h.ServeIncoming(logonBytes(1))
		}
		done := make(chan struct{})
		go func() { h.ServeIncoming(toBytes(inp)); h.ServeIncoming(logonBytes(2)); close(done) }()
		select {
		case <-done:
			out.Direct++
		case <-time.After(2 * time.Second):
			out.Blocked++
		}
		time.Sleep(200 * time.Microsecond)
		cancel()
	}

	// the acceptor still serves
	if c, err := net.Dial("tcp", l.Addr().String()); err == nil {
		_ = c.SetDeadline(time.Now().Add(2 * time.Second))
		_, _ = c.Write(logonBytes(1))
		buf := make([]byte, 4096)
		n, _ := c.Read(buf)
		out.StillServing = n > 0
		c.Close()
	}
	b, _ := json.Marshal(out)
	if err := os.WriteFile(filepath.Join(outDir, "garbage.json"), b, 0o644); err != nil {
		t.Fatal(err)
	}
}

var _ = errors.New
