//go:build verif

// Package stack runs the WHOLE library end to end: a real Acceptor and a real Initiator with real
// sessions on both sides, connected over TCP loopback through a proxy that can stall a direction or
// lose a message.  Two observations are recorded: the handler events of both sides (trace hooks of
// the verif build: inbound message at the start of its dispatch, outbound message after
// serialization under the handler lock), for SessionEventTrace, and the byte stream each side
// really put on the wire, cut into messages by an independent tokenizer, for WireTrace.
package stack

import (
	"strings"
	"bytes"
	"context"
	"encoding/json"
	"fmt"
	"math/rand"
	"net"
	"os"
	"path/filepath"
	"sync"
	"testing"
	"time"

	simplefixgo "github.com/b2broker/simplefix-go"
	"github.com/b2broker/simplefix-go/session"
	"github.com/b2broker/simplefix-go/storages/memory"
	fixgen "github.com/b2broker/simplefix-go/tests/fix44"

	"verifharness/sess"
)

type Step struct {
	At int    `json:"at"` // ms from the start of the scenario
	// ini-send acc-send ini-logout acc-logout | stall-X resume-X: the proxy holds back the messages of direction X (i2a, a2i) |
	// drop-X: loses the next one | block-X unblock-X: the proxy stops READING (real TCP back-pressure, small socket buffers) |
	// ini-burst acc-burst: 300 sends from a goroutine of their own
	Op string `json:"op"`
}

type Scenario struct {
	ID    string `json:"id"`
	Hb    int    `json:"hb"`
	Seed  int64  `json:"seed"`
	Steps []Step `json:"steps"`
	EndMs int    `json:"endMs"`
	Clean bool   `json:"clean"` // no fault, no teardown before the last send: every accepted Send must reach the wire
	// Pipe: synchronous in-memory connections (net.Pipe) instead of TCP on both hops.  Used for back-pressure: a proxy that stops
	// reading blocks the library's Write at once, whereas tiny TCP socket buffers on loopback (MSS 64 KB) run into the kernel's
	// window-probing timers and stall a connection for minutes - an artefact of the test bed, not of the library
	Pipe bool `json:"pipe"`
	// Buf: size of the handlers' and the initiator's queues (0 = 10, as in the repository's tests)
	Buf int `json:"buf"`
}

// ---- hook log ----

type sideLog struct {
	sid   string
	start time.Time
}

var (
	hookMu    sync.Mutex
	hookLines []string
	sides     sync.Map // handler -> *sideLog
)

func hook(kind string, h interface{}, data []byte) {
	v, ok := sides.Load(h)
	if !ok {
		return
	}
	sl := v.(*sideLog)
	hookMu.Lock()
	hookLines = append(hookLines, fmt.Sprintf("%d %s %s %x", time.Since(sl.start).Milliseconds(), kind, sl.sid, data))
	hookMu.Unlock()
}

func register(h interface{}, sid, role string, start time.Time) {
	sides.Store(h, &sideLog{sid: sid, start: start})
	hookMu.Lock()
	hookLines = append(hookLines, fmt.Sprintf("0 new-%s %s ", role, sid))
	hookMu.Unlock()
}

// ---- proxy ----

type wireMsg struct {
	raw []byte
	t   int64
}

type dir struct {
	mu      sync.Mutex
	blocked bool
	unblock chan struct{}
	stalled bool
	held    [][]byte
	drop    int
	seen    []wireMsg
	fwd     []wireMsg
	chunks  int
	dst     net.Conn
	rnd     *rand.Rand
	start   time.Time
}

// cut returns the first complete message of acc (independent framing: "<SOH>10=ddd<SOH>" ends a message).
func cut(acc []byte) (msg, rest []byte, ok bool) {
	i := bytes.Index(acc, []byte("\x0110="))
	if i < 0 || len(acc) < i+8 {
		return nil, acc, false
	}
	if acc[i+7] != 1 {
		return nil, acc, false
	}
	return acc[:i+8], acc[i+8:], true
}

func (d *dir) forward(m []byte) {
	d.fwd = append(d.fwd, wireMsg{m, time.Since(d.start).Milliseconds()})
	// in one to three writes: the receiving side has to reassemble
	parts := 1 + d.rnd.Intn(3)
	for len(m) > 0 {
		n := len(m)
		if parts > 1 && n > 2 {
			n = 1 + d.rnd.Intn(n-1)
		}
		parts--
		d.chunks++
		if _, err := d.dst.Write(m[:n]); err != nil {
			return
		}
		m = m[n:]
	}
}

func (d *dir) onMsg(m []byte) {
	d.mu.Lock()
	defer d.mu.Unlock()
	d.seen = append(d.seen, wireMsg{m, time.Since(d.start).Milliseconds()})
	if d.drop > 0 {
		d.drop--
		return
	}
	if d.stalled {
		d.held = append(d.held, m)
		return
	}
	d.forward(m)
}

func (d *dir) set(stalled bool) {
	d.mu.Lock()
	defer d.mu.Unlock()
	d.stalled = stalled
	if !stalled {
		for _, m := range d.held {
			d.forward(m)
		}
		d.held = nil
	}
}

func (d *dir) block(b bool) {
	d.mu.Lock()
	defer d.mu.Unlock()
	if b && !d.blocked {
		d.blocked, d.unblock = true, make(chan struct{})
	} else if !b && d.blocked {
		d.blocked = false
		close(d.unblock)
	}
}

func (d *dir) waitUnblocked() {
	d.mu.Lock()
	b, ch := d.blocked, d.unblock
	d.mu.Unlock()
	if b {
		<-ch
	}
}

func small(c net.Conn) {
	if t, ok := c.(*net.TCPConn); ok {
		_ = t.SetReadBuffer(2048)
		_ = t.SetWriteBuffer(2048)
	}
}

// pipeListener hands out in-memory connections
type pipeListener struct {
	ch     chan net.Conn
	closed chan struct{}
	once   sync.Once
}

func (l *pipeListener) Accept() (net.Conn, error) {
	select {
	case c := <-l.ch:
		return c, nil
	case <-l.closed:
		return nil, fmt.Errorf("listener closed")
	}
}
func (l *pipeListener) Close() error   { l.once.Do(func() { close(l.closed) }); return nil }
func (l *pipeListener) Addr() net.Addr { return &net.TCPAddr{} }

type smallListener struct{ net.Listener }

func (l smallListener) Accept() (net.Conn, error) {
	c, err := l.Listener.Accept()
	if err == nil {
		small(c)
	}
	return c, err
}

func (d *dir) dropNext() {
	d.mu.Lock()
	d.drop++
	d.mu.Unlock()
}

func (d *dir) pump(src net.Conn, wg *sync.WaitGroup) {
	defer wg.Done()
	buf := make([]byte, 65536)
	var acc []byte
	for {
		d.waitUnblocked()
		n, err := src.Read(buf)
		if n > 0 {
			acc = append(acc, buf[:n]...)
			for {
				m, rest, ok := cut(acc)
				if !ok {
					break
				}
				d.onMsg(append([]byte{}, m...))
				acc = append([]byte{}, rest...)
			}
		}
		if err != nil {
			_ = d.dst.Close()
			return
		}
	}
}

// ---- one scenario ----

type proxyMsg struct {
	T   int64  `json:"t"`
	Hex string `json:"hex"`
}

type proxyObs struct {
	ID     string     `json:"id"`
	From   string     `json:"from"` // the side whose output this is
	Seen   []proxyMsg `json:"seen"` // what that side put on the wire
	Fwd    []proxyMsg `json:"fwd"`  // what the proxy passed on to the other side
	Chunks int        `json:"chunks"`
	EndMs  int        `json:"endMs"`
	Clean  bool       `json:"clean"`
}

type result struct {
	wires   []sess.WireObs
	proxies []proxyObs
	fail    string
}

func runScenario(sc *Scenario) (res result) {
	start := time.Now()
	rnd := rand.New(rand.NewSource(sc.Seed))
	accL, err := net.Listen("tcp", "127.0.0.1:0")
	if err != nil {
		return result{fail: "listen: " + err.Error()}
	}
	proxyL, err := net.Listen("tcp", "127.0.0.1:0")
	if err != nil {
		accL.Close()
		return result{fail: "listen: " + err.Error()}
	}
	defer proxyL.Close()

	var accListener net.Listener = accL
	pl := &pipeListener{ch: make(chan net.Conn, 1), closed: make(chan struct{})}
	if sc.Pipe {
		accListener = pl
	}
	var accSess *session.Session
	var accH interface{}
	var accMu sync.Mutex
	qsize := sc.Buf
	if qsize == 0 {
		qsize = 10
	}
	factory := simplefixgo.NewAcceptorHandlerFactory(fixgen.FieldMsgType, qsize)
	accStore := memory.NewStorage()
	acceptor := simplefixgo.NewAcceptor(accListener, factory, 5*time.Second, func(h simplefixgo.AcceptorHandler) {
		register(h, sc.ID+"/acc", "acceptor", start)
		s, err := session.NewAcceptorSession(sharedOpts([]string{"0"}), h, &session.LogonSettings{
			LogonTimeout:  30 * time.Second,
			HeartBtLimits: &session.IntLimits{Min: 1, Max: 60},
		}, func(*session.LogonSettings) error { return nil }, accStore, accStore)
		if err != nil {
			panic(err)
		}
		if err := s.Run(); err != nil {
			panic(err)
		}
		accMu.Lock()
		accSess, accH = s, h
		accMu.Unlock()
	})
	accDone := make(chan struct{})
	go func() { defer close(accDone); _ = acceptor.ListenAndServe() }()

	// the proxy
	var pumps sync.WaitGroup
	i2a := &dir{rnd: rand.New(rand.NewSource(rnd.Int63())), start: start}
	a2i := &dir{rnd: rand.New(rand.NewSource(rnd.Int63())), start: start}
	proxyReady := make(chan error, 1)
	var cIni, cAcc net.Conn
	var pipeIni net.Conn
	if sc.Pipe {
		a1, a2 := net.Pipe() // initiator <-> proxy
		b1, b2 := net.Pipe() // proxy <-> acceptor
		pipeIni = a1
		pl.ch <- b2
		cIni, cAcc = a2, b1
		i2a.dst, a2i.dst = b1, a2
		pumps.Add(2)
		go i2a.pump(a2, &pumps)
		go a2i.pump(b1, &pumps)
		proxyReady <- nil
	} else {
		go func() {
			c1, err := proxyL.Accept()
			if err != nil {
				proxyReady <- err
				return
			}
			c2, err := net.Dial("tcp", accL.Addr().String())
			if err != nil {
				c1.Close()
				proxyReady <- err
				return
			}
			cIni, cAcc = c1, c2
			i2a.dst, a2i.dst = c2, c1
			pumps.Add(2)
			go i2a.pump(c1, &pumps)
			go a2i.pump(c2, &pumps)
			proxyReady <- nil
		}()
	}
	var conn net.Conn
	if sc.Pipe {
		conn = pipeIni
	} else {
		conn, err = net.Dial("tcp", proxyL.Addr().String())
		if err != nil {
			acceptor.Close()
			return result{fail: "dial: " + err.Error()}
		}
	}

	if err := <-proxyReady; err != nil {
		conn.Close()
		acceptor.Close()
		return result{fail: "proxy: " + err.Error()}
	}
	iniH := simplefixgo.NewInitiatorHandler(context.Background(), fixgen.FieldMsgType, qsize)
	register(iniH, sc.ID+"/ini", "initiator", start)
	client := simplefixgo.NewInitiator(conn, iniH, qsize, 5*time.Second)
	iniStore := memory.NewStorage()
	iniSess, err := session.NewInitiatorSession(iniH, sharedOpts([]string{"0"}), &session.LogonSettings{
		TargetCompID: "ACC", SenderCompID: "INI", HeartBtInt: sc.Hb, EncryptMethod: "0", Username: "user", Password: "good",
	}, iniStore, iniStore)
	if err != nil {
		panic(err)
	}
	if err := iniSess.Run(); err != nil {
		panic(err)
	}
	serveDone := make(chan struct{})
	go func() { defer close(serveDone); _ = client.Serve() }()

	okSends := map[string]int{}
	var okMu sync.Mutex
	var bursts sync.WaitGroup
	burst := func(side string, s *session.Session, reuse bool) {
		bursts.Add(1)
		go func() {
			defer bursts.Done()
			own := fixgen.NewMarketDataRequest()
			for k := 0; k < 300; k++ {
				m := own // the same message object again and again, as the repository's own highload test does
				if !reuse {
					m = fixgen.NewMarketDataRequest()
				}
				if s.Send(m.SetMDReqID(fmt.Sprintf("%sb%d", side, k))) == nil {
					okMu.Lock()
					okSends[side]++
					okMu.Unlock()
				}
			}
		}()
	}
	n := 0
	for _, st := range sc.Steps {
		if d := time.Until(start.Add(time.Duration(st.At) * time.Millisecond)); d > 0 {
			time.Sleep(d)
		}
		switch st.Op {
		case "ini-send":
			n++
			if iniSess.Send(fixgen.NewMarketDataRequest().SetMDReqID(fmt.Sprintf("i%d", n))) == nil {
				okMu.Lock()
				okSends["ini"]++
				okMu.Unlock()
			}
		case "acc-send":
			accMu.Lock()
			s := accSess
			accMu.Unlock()
			if s != nil {
				n++
				if s.Send(fixgen.NewMarketDataRequest().SetMDReqID(fmt.Sprintf("a%d", n))) == nil {
					okMu.Lock()
					okSends["acc"]++
					okMu.Unlock()
				}
			}
		case "ini-send-big", "acc-send-big": // one message larger than any buffer of the pipeline, from a goroutine of its own
			side, sn := "ini", iniSess
			if st.Op == "acc-send-big" {
				accMu.Lock()
				side, sn = "acc", accSess
				accMu.Unlock()
			}
			if sn != nil {
				n++
				k := n
				bursts.Add(1)
				go func() {
					defer bursts.Done()
					if sn.Send(fixgen.NewMarketDataRequest().SetMDReqID(fmt.Sprintf("%sBIG%d-%s", side, k, strings.Repeat("x", 5000)))) == nil {
						okMu.Lock()
						okSends[side]++
						okMu.Unlock()
					}
				}()
			}
		case "ini-testreq-burst", "acc-testreq-burst": // 30 TestRequests with ascending identifiers "q000".."q029" from a goroutine of its own
			side, sn := "ini", iniSess
			if st.Op == "acc-testreq-burst" {
				accMu.Lock()
				side, sn = "acc", accSess
				accMu.Unlock()
			}
			_ = side
			if sn != nil {
				bursts.Add(1)
				go func() {
					defer bursts.Done()
					for k := 0; k < 30; k++ {
						_ = sn.Send(fixgen.TestRequest{}.New().SetFieldTestReqID(fmt.Sprintf("q%03d", k)))
					}
				}()
			}
		case "ini-askresend": // the application asks the peer to send everything again (as tests/initiator.go does)
			_ = iniSess.Send(fixgen.ResendRequest{}.New().SetFieldBeginSeqNo(1).SetFieldEndSeqNo(0))
		case "acc-askresend":
			accMu.Lock()
			s := accSess
			accMu.Unlock()
			if s != nil {
				// (not the peer's own ResendRequest: the library would resend that too, and the two sides would ask each other for ever)
				_ = s.Send(fixgen.ResendRequest{}.New().SetFieldBeginSeqNo(2).SetFieldEndSeqNo(2))
			}
		case "ini-logout":
			_ = iniSess.Logout()
		case "acc-logout":
			accMu.Lock()
			s := accSess
			accMu.Unlock()
			if s != nil {
				_ = s.Logout()
			}
		case "stall-i2a":
			i2a.set(true)
		case "resume-i2a":
			i2a.set(false)
		case "stall-a2i":
			a2i.set(true)
		case "resume-a2i":
			a2i.set(false)
		case "block-i2a":
			i2a.block(true)
		case "unblock-i2a":
			i2a.block(false)
		case "block-a2i":
			a2i.block(true)
		case "unblock-a2i":
			a2i.block(false)
		case "ini-burst", "ini-burst-reuse":
			burst("ini", iniSess, st.Op == "ini-burst-reuse")
		case "acc-burst", "acc-burst-reuse":
			accMu.Lock()
			s := accSess
			accMu.Unlock()
			if s != nil {
				burst("acc", s, st.Op == "acc-burst-reuse")
			}
		case "drop-i2a":
			i2a.dropNext()
		case "drop-a2i":
			a2i.dropNext()
		}
	}
	if d := time.Until(start.Add(time.Duration(sc.EndMs) * time.Millisecond)); d > 0 {
		time.Sleep(d)
	}
	i2a.block(false)
	a2i.block(false)
	burstsDone := make(chan struct{})
	go func() { bursts.Wait(); close(burstsDone) }()
	burstsFinished := waitOr(burstsDone, 8*time.Second)
	// let everything that was accepted for sending drain through the transport and the proxy (the machine may be busy): wait
	// until neither direction has seen a new message for a while
	seenCount := func() int {
		i2a.mu.Lock()
		a2i.mu.Lock()
		n := len(i2a.seen) + len(a2i.seen)
		a2i.mu.Unlock()
		i2a.mu.Unlock()
		return n
	}
	if sc.Clean {
		last, since := seenCount(), time.Now()
		for deadline := time.Now().Add(6 * time.Second); time.Now().Before(deadline); {
			time.Sleep(20 * time.Millisecond)
			if n := seenCount(); n != last {
				last, since = n, time.Now()
			} else if time.Since(since) > 250*time.Millisecond {
				break
			}
		}
	}
	// stop observing, then tear everything down
	sides.Delete(interface{}(iniH))
	accMu.Lock()
	if accH != nil {
		sides.Delete(accH)
	}
	accMu.Unlock()
	client.Close()
	acceptor.Close()
	_ = conn.Close()
	_ = cIni.Close()
	_ = cAcc.Close()
	_ = accL.Close()
	_ = pl.Close()
	waitOr(serveDone, 3*time.Second)
	waitOr(accDone, 3*time.Second)
	pumps.Wait()

	mk := func(d *dir, side, sender, target string) sess.WireObs {
		d.mu.Lock()
		defer d.mu.Unlock()
		o := sess.WireObs{K: "wire", ID: sc.ID + "/" + side, Kind: "stack", Virtual: false, Feasible: true, Gate: "", Order: []int{}, ExpEcho: []int{},
			ExpSender: sess.Ints([]byte(sender)), ExpTarget: sess.Ints([]byte(target)), Msgs: []sess.WireRec{}}
		var all [][]byte
		apps := 0
		for _, m := range d.seen {
			w := sess.WireRecOf(m.raw, &all, m.t)
			if w.Ty == "V" && w.DupOf == 0 {
				apps++
			}
			o.Msgs = append(o.Msgs, w)
		}
		o.Expected = apps
		if sc.Clean && burstsFinished {
			okMu.Lock()
			o.Expected = okSends[side]
			okMu.Unlock()
		}
		return o
	}
	res.wires = []sess.WireObs{mk(i2a, "ini", "INI", "ACC"), mk(a2i, "acc", "ACC", "INI")}
	pm := func(d *dir, from string) proxyObs {
		d.mu.Lock()
		defer d.mu.Unlock()
		o := proxyObs{ID: sc.ID, From: from, Seen: []proxyMsg{}, Fwd: []proxyMsg{}, Chunks: d.chunks, EndMs: sc.EndMs, Clean: sc.Clean && burstsFinished}
		for _, m := range d.seen {
			o.Seen = append(o.Seen, proxyMsg{m.t, fmt.Sprintf("%x", m.raw)})
		}
		for _, m := range d.fwd {
			o.Fwd = append(o.Fwd, proxyMsg{m.t, fmt.Sprintf("%x", m.raw)})
		}
		return o
	}
	res.proxies = []proxyObs{pm(i2a, "ini"), pm(a2i, "acc")}
	return res
}

func waitOr(ch chan struct{}, d time.Duration) bool {
	select {
	case <-ch:
		return true
	case <-time.After(d):
		return false
	}
}

func TestStack(t *testing.T) {
	in, outDir := os.Getenv("VERIF_STACK_IN"), os.Getenv("VERIF_STACK_OUT")
	if in == "" || outDir == "" {
		t.Skip("VERIF_STACK_IN / VERIF_STACK_OUT not set")
	}
	data, err := os.ReadFile(in)
	if err != nil {
		t.Fatal(err)
	}
	var scs []Scenario
	if err := json.Unmarshal(data, &scs); err != nil {
		t.Fatal(err)
	}
	simplefixgo.VerifTrace = hook
	var wg sync.WaitGroup
	var mu sync.Mutex
	var wires []sess.WireObs
	var proxies []proxyObs
	fails := map[string]string{}
	sem := make(chan struct{}, 48)
	for i := range scs {
		sc := &scs[i]
		wg.Add(1)
		sem <- struct{}{}
		go func() {
			defer wg.Done()
			defer func() { <-sem }()
			r := runScenario(sc)
			mu.Lock()
			wires = append(wires, r.wires...)
			proxies = append(proxies, r.proxies...)
			if r.fail != "" {
				fails[sc.ID] = r.fail
			}
			mu.Unlock()
		}()
	}
	wg.Wait()
	simplefixgo.VerifTrace = nil
	hookMu.Lock()
	lines := append([]string{}, hookLines...)
	hookMu.Unlock()
	f, err := os.Create(filepath.Join(outDir, "hooks.txt"))
	if err != nil {
		t.Fatal(err)
	}
	for _, l := range lines {
		fmt.Fprintln(f, l)
	}
	f.Close()
	w, err := os.Create(filepath.Join(outDir, "wire.ndjson"))
	if err != nil {
		t.Fatal(err)
	}
	enc := json.NewEncoder(w)
	for _, o := range wires {
		_ = enc.Encode(o)
	}
	w.Close()
	pf, err := os.Create(filepath.Join(outDir, "proxy.ndjson"))
	if err != nil {
		t.Fatal(err)
	}
	penc := json.NewEncoder(pf)
	for _, o := range proxies {
		_ = penc.Encode(o)
	}
	pf.Close()
	fj, _ := json.Marshal(fails)
	_ = os.WriteFile(filepath.Join(outDir, "fails.json"), fj, 0o644)
}
