//go:build verif

package stack

// The scenarios of the session pool (harness/sess: a history of inbound messages built by hand and of local calls) run
// over a REAL connection: the library side is a real Acceptor (or Initiator) with a real session, the peer is a raw TCP
// socket driven by the harness.  Every step is recorded exactly as harness/sess records it (messages out since the step
// began, IsLogged, contexts, notifications), so the same trace specification (SessionTrace) validates it.  Time is real:
// "the step is over" means that nothing arrived for a while, and only histories without timed steps are run this way.

import (
	"bytes"
	"context"
	"encoding/json"
	"errors"
	"net"
	"os"
	"path/filepath"
	"sync"
	"testing"
	"time"

	simplefixgo "github.com/b2broker/simplefix-go"
	"github.com/b2broker/simplefix-go/fix"
	"github.com/b2broker/simplefix-go/session"
	"github.com/b2broker/simplefix-go/storages/memory"
	fixgen "github.com/b2broker/simplefix-go/tests/fix44"
	"github.com/b2broker/simplefix-go/utils"

	"verifharness/sess"
)

const quietMs = 40

// One session.Opts value (message builders, tags, error codes) serves every session of the process, as it does in an
// application whose acceptor creates a session per connection from one configuration.
var (
	optsMu    sync.Mutex
	optsCache = map[string]*session.Opts{}
)

type sharedAcc struct {
	mu    sync.Mutex // serialises connection set-up
	addr  string
	onNew func(simplefixgo.AcceptorHandler)
	acc   *simplefixgo.Acceptor
	l     net.Listener
}

var (
	accMu  sync.Mutex
	accMap = map[int]*sharedAcc{}
)

func sharedAcceptor(buf int) *sharedAcc {
	accMu.Lock()
	defer accMu.Unlock()
	if a, ok := accMap[buf]; ok {
		return a
	}
	l, err := net.Listen("tcp", "127.0.0.1:0")
	if err != nil {
		panic(err)
	}
	a := &sharedAcc{addr: l.Addr().String(), l: l}
	a.acc = simplefixgo.NewAcceptor(l, simplefixgo.NewAcceptorHandlerFactory(fixgen.FieldMsgType, buf), 2*time.Second,
		func(h simplefixgo.AcceptorHandler) { a.onNew(h) })
	go func() { _ = a.acc.ListenAndServe() }()
	accMap[buf] = a
	return a
}

func closeSharedAcceptors() {
	accMu.Lock()
	defer accMu.Unlock()
	for k, a := range accMap {
		a.acc.Close()
		a.l.Close()
		delete(accMap, k)
	}
}

func sharedOpts(allowed []string) *session.Opts {
	key := ""
	for _, a := range allowed {
		key += a + ","
	}
	optsMu.Lock()
	defer optsMu.Unlock()
	if o, ok := optsCache[key]; ok {
		return o
	}
	o := sess.Opts(allowed)
	optsCache[key] = o
	return o
}

type wireRig struct {
	sc    *sess.Scenario
	start time.Time
	S     *session.Session
	H     interface{ Context() context.Context }
	peer  net.Conn
	mu    sync.Mutex
	evs   []sess.EvObs
	all   [][]byte
	acc   []byte
	stop  []func()
}

func (w *wireRig) ms() int64 { return time.Since(w.start).Milliseconds() }

func (w *wireRig) watch(s *session.Session, h interface{ OnStopped(utils.EventHandlerFunc) }) {
	for ev, name := range map[utils.Event]string{utils.EventLogon: "logon", utils.EventLogout: "logout",
		utils.EventRequest: "request", utils.EventDisconnect: "disconnect"} {
		name := name
		s.OnChangeState(ev, func() bool {
			w.mu.Lock()
			w.evs = append(w.evs, sess.EvObs{E: name, T: w.ms()})
			w.mu.Unlock()
			return true
		})
	}
	h.OnStopped(func() bool {
		w.mu.Lock()
		w.evs = append(w.evs, sess.EvObs{E: "stopped", T: w.ms()})
		w.mu.Unlock()
		return true
	})
}

func preload(store *memory.Storage, n int) {
	for k := 1; k <= n; k++ {
		m := fixgen.CreateHeartbeat()
		m.HeaderBuilder().SetFieldMsgSeqNum(k).SetFieldSenderCompID("OTHER").SetFieldTargetCompID("THIRD")
		_ = store.Save(fix.StorageID{Sender: "OTHER", Target: "THIRD", Side: fix.Outgoing}, m, k)
		_, _ = store.GetNextSeqNum(fix.StorageID{Side: fix.Outgoing})
	}
}

// open builds the library side and connects the raw peer to it ("run" step).
func (w *wireRig) open() error {
	cfg := w.sc.Cfg
	store := memory.NewStorage()
	preload(store, cfg.StartSeq)
	allowed := cfg.Allowed
	if allowed == nil {
		allowed = []string{"0"}
	}
	if cfg.Role == "acceptor" {
		// ONE acceptor (per handler buffer size) serves the connections of all scenarios, as a server does; the set-up of a
		// connection (dial, callback) is serialised so that the callback knows which scenario it is creating the session for
		sa := sharedAcceptor(cfg.Buf)
		sa.mu.Lock()
		defer sa.mu.Unlock()
		ready := make(chan error, 1)
		sa.onNew = func(h simplefixgo.AcceptorHandler) {
			s, err := session.NewAcceptorSession(sharedOpts(allowed), h, &session.LogonSettings{
				LogonTimeout:  30 * time.Second,
				CloseTimeout:  time.Duration(cfg.CloseMs) * time.Millisecond,
				HeartBtLimits: &session.IntLimits{Min: cfg.HbMin, Max: cfg.HbMax},
			}, func(req *session.LogonSettings) error {
				if req.Password == "bad" {
					return errors.New("refused by the application")
				}
				return nil
			}, store, store)
			if err != nil {
				ready <- err
				return
			}
			dh, ok := h.(*simplefixgo.DefaultHandler)
			if !ok {
				ready <- errors.New("acceptor handler is not a *DefaultHandler")
				return
			}
			w.watch(s, dh)
			w.S, w.H = s, dh
			ready <- s.Run()
		}
		c, err := net.Dial("tcp", sa.addr)
		if err != nil {
			return err
		}
		w.peer = c
		select {
		case err := <-ready:
			return err
		case <-time.After(3 * time.Second):
			return errors.New("acceptor did not call back")
		}
	}
	l, err := net.Listen("tcp", "127.0.0.1:0")
	if err != nil {
		return err
	}
	// initiator: the raw peer listens
	defer l.Close()
	connCh := make(chan net.Conn, 1)
	go func() {
		c, err := l.Accept()
		if err == nil {
			connCh <- c
		}
	}()
	conn, err := net.Dial("tcp", l.Addr().String())
	if err != nil {
		return err
	}
	select {
	case w.peer = <-connCh:
	case <-time.After(3 * time.Second):
		return errors.New("raw peer did not get the connection")
	}
	h := simplefixgo.NewInitiatorHandler(context.Background(), fixgen.FieldMsgType, cfg.Buf)
	ini := simplefixgo.NewInitiator(conn, h, cfg.Buf, 2*time.Second)
	s, err := session.NewInitiatorSession(h, sharedOpts(allowed), &session.LogonSettings{
		TargetCompID: "PEER", SenderCompID: "SRV",
		HeartBtInt: cfg.HbCfg, EncryptMethod: cfg.EncCfg, Username: "user", Password: "good",
		CloseTimeout: time.Duration(cfg.CloseMs) * time.Millisecond,
	}, store, store)
	if err != nil {
		return err
	}
	w.watch(s, h)
	w.S, w.H = s, h
	w.stop = append(w.stop, ini.Close, func() { conn.Close() })
	if err := s.Run(); err != nil {
		return err
	}
	go func() { _ = ini.Serve() }()
	return nil
}

// settle reads from the raw socket until nothing has arrived for quietMs; returns the complete messages.
func (w *wireRig) settle() [][]byte {
	var msgs [][]byte
	if w.peer == nil {
		time.Sleep(quietMs * time.Millisecond)
		return nil
	}
	buf := make([]byte, 65536)
	for {
		_ = w.peer.SetReadDeadline(time.Now().Add(quietMs * time.Millisecond))
		n, err := w.peer.Read(buf)
		if n > 0 {
			w.acc = append(w.acc, buf[:n]...)
			for {
				m, rest, ok := cut(w.acc)
				if !ok {
					break
				}
				msgs = append(msgs, append([]byte{}, m...))
				w.acc = append([]byte{}, rest...)
			}
			continue
		}
		if err != nil {
			return msgs // quiet (deadline) or closed
		}
	}
}

func tsNow() string { return time.Now().UTC().Format("20060102-15:04:05.000") }

func runWire(sc *sess.Scenario) (recs []interface{}, failure string) {
	w := &wireRig{sc: sc, start: time.Now()}
	defer func() {
		for _, f := range w.stop {
			f()
		}
		if w.peer != nil {
			w.peer.Close()
		}
	}()
	recs = append(recs, sess.InitObs{K: "init", ID: sc.ID, Cfg: sc.Cfg})
	for i := range sc.Steps {
		a := sc.Steps[i]
		t0 := w.ms()
		callErr := false
		switch a.A {
		case "run":
			if err := w.open(); err != nil {
				return nil, "open: " + err.Error()
			}
		case "send":
			callErr = w.S.Send(fixgen.NewMarketDataRequest().SetMDReqID("req")) != nil
		case "llogout":
			callErr = w.S.Logout() != nil
		case "stop":
			callErr = w.S.Stop() != nil
		case "relogon":
			_ = w.S.LogonRequest()
		case "advance":
			return nil, "timed step in a wire scenario"
		default:
			raw := sess.Inbound(&a, "PEER", "SRV", tsNow())
			_ = w.peer.SetWriteDeadline(time.Now().Add(time.Second))
			_, _ = w.peer.Write(raw) // a connection the library has closed: nothing is delivered, nothing comes back
		}
		raws := w.settle()
		outs := []sess.Digest{}
		for _, raw := range raws {
			d := sess.MakeDigest(raw)
			d.T = w.ms()
			for j, old := range w.all {
				if bytes.Equal(old, raw) {
					d.DupOf = j + 1
					break
				}
			}
			w.all = append(w.all, raw)
			outs = append(outs, d)
		}
		w.mu.Lock()
		evs := w.evs
		w.evs = nil
		w.mu.Unlock()
		if evs == nil {
			evs = []sess.EvObs{}
		}
		recs = append(recs, sess.StepObs{K: "step", ID: sc.ID, I: i + 1, A: a, T: t0, Outs: outs,
			Logged: w.S.IsLogged(), Ctx: w.S.Context().Err() != nil, HCtx: w.H.Context().Err() != nil,
			Events: evs, Err: callErr, Saves: []int{}})
	}
	return recs, ""
}

func TestWireSess(t *testing.T) {
	in, outDir := os.Getenv("VERIF_STACK_IN"), os.Getenv("VERIF_STACK_OUT")
	if in == "" || outDir == "" {
		t.Skip("VERIF_STACK_IN / VERIF_STACK_OUT not set")
	}
	data, err := os.ReadFile(in)
	if err != nil {
		t.Fatal(err)
	}
	var scs []sess.Scenario
	if err := json.Unmarshal(data, &scs); err != nil {
		t.Fatal(err)
	}
	var wg sync.WaitGroup
	var mu sync.Mutex
	out := make([][]interface{}, len(scs))
	fails := map[string]string{}
	sem := make(chan struct{}, 48)
	for i := range scs {
		i := i
		wg.Add(1)
		sem <- struct{}{}
		go func() {
			defer wg.Done()
			defer func() { <-sem }()
			r, f := runWire(&scs[i])
			mu.Lock()
			out[i] = r
			if f != "" {
				fails[scs[i].ID] = f
			}
			mu.Unlock()
		}()
	}
	wg.Wait()
	closeSharedAcceptors()
	f, err := os.Create(filepath.Join(outDir, "wiresess.ndjson"))
	if err != nil {
		t.Fatal(err)
	}
	enc := json.NewEncoder(f)
	for _, recs := range out {
		for _, r := range recs {
			_ = enc.Encode(r)
		}
	}
	f.Close()
	fj, _ := json.Marshal(fails)
	_ = os.WriteFile(filepath.Join(outDir, "fails.json"), fj, 0o644)
}
