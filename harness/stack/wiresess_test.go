//go:build verif

package stack

// The scenarios of the session pool (harness/sess: a history of inbound messages built by hand and of local calls) run
// over a REAL connection: the library side is a real Acceptor (or Initiator) with a real session, the peer is a raw TCP
// socket driven by the harness.  Every step is recorded exactly as harness/sess records it (messages out since the step
// began, IsLogged, contexts, notifications), so the same trace specification (SessionTrace) validates it.  Time is real:
// "the step is over" means that nothing arrived for a while, and only histories without timed steps are run this way.

import (
	"bytes"
	"context"
	"encoding/json"
	"errors"
	"net"
	"os"
	"path/filepath"
	"sync"
	"testing"
	"time"

	simplefixgo "github.com/b2broker/simplefix-go"
	"github.com/b2broker/simplefix-go/fix"
	"github.com/b2broker/simplefix-go/session"
	"github.com/b2broker/simplefix-go/storages/memory"
	fixgen "github.com/b2broker/simplefix-go/tests/fix44"
	"github.com/b2broker/simplefix-go/utils"

	"verifharness/sess"
)

const quietMs = 40

// One session.Opts value (message builders, tags, error codes) serves every session of the process, as it does in an
// application whose acceptor creates a session per connection from one configuration.
var (
	optsMu    sync.Mutex
	optsCache = map[string]*session.Opts{}
)

type sharedAcc struct {
	mu    sync.Mutex // serialises connection set-up
	addr  string
	onNew func(simplefixgo.AcceptorHandler)
	acc   *simplefixgo.Acceptor
	l     net.Listener
}

var (
	accMu  sync.Mutex
	accMap = map[int]*sharedAcc{}
)

func sharedAcceptor(buf int) *sharedAcc {
	accMu.Lock()
	defer accMu.Unlock()
	if a, ok := accMap[buf]; ok {
		return a
	}
	l, err := net.Listen("tcp", "127.0.0.1:0")
	if err != nil {
		panic(err)
	}
	a := &sharedAcc{addr: l.Addr().String(), l: l}
	a.acc = simplefixgo.NewAcceptor(l, simplefixgo.NewAcceptorHandlerFactory(fixgen.FieldMsgType, buf), 2*time.Second,
		func(h simplefixgo.AcceptorHandler) { a.onNew(h) })
	go func() { _ = a.acc.ListenAndServe() }()
	accMap[buf] = a
	return a
}

func closeSharedAcceptors() {
	accMu.Lock()
	defer accMu.Unlock()
	for k, a := range accMap {
		a.acc.Close()
		a.l.Close()
		delete(accMap, k)
	}
}

func sharedOpts(allowed []string) *session.Opts {
	key := ""
	for _, a := range allowed {
		key += a + ","
	}
	optsMu.Lock()
	defer optsMu.Unlock()
	if o, ok := optsCache[key]; ok {
		return o
	}
	o := sess.Opts(allowed)
	optsCache[key] = o
	return o
}

type wireRig struct {
	sc    *sess.Scenario
	start time.Time
	S     *session.Session
	H     interface{ Context() context.Context }
	C0    context.Context // the session context as obtained right after construction
	peer  net.Conn
	mu    sync.Mutex
	evs   []sess.EvObs
	all   [][]byte
	acc   []byte
	stop  []func()
}

func (w *wireRig) ms() int64 { return time.Since(w.start).Milliseconds() }

func (w *wireRig) watch(s *session.Session, h interface{ OnStopped(utils.EventHandlerFunc) }) {
	for ev, name := range map[utils.Event]string{utils.EventLogon: "logon", utils.EventLogout: "logout",
		utils.EventRequest: "request", utils.EventDisconnect: "disconnect"} {
		name := name
		s.OnChangeState(ev, func() bool {
			w.mu.Lock()
			w.evs = append(w.evs, sess.EvObs{E: name, T: w.ms()})
			w.mu.Unlock()
			return true
		})
	}
	h.OnStopped(func() bool {
		w.mu.Lock()
		w.evs = append(w.evs, sess.EvObs{E: "stopped", T: w.ms()})
		w.mu.Unlock()
		return true
	})
}

func preload(store *memory.Storage, n int) {
	for k := 1; k <= n; k++ {
		m := fixgen.CreateHeartbeat()
		m.HeaderBuilder().SetFieldMsgSeqNum(k).SetFieldSenderCompID("OTHER").SetFieldTargetCompID("THIRD")
		_ = store.Save(fix.StorageID{Sender: "OTHER", Target: "THIRD", Side: fix.Outgoing}, m, k)
		_, _ = store.GetNextSeqNum(fix.StorageID{Side: fix.Outgoing})
	}
}

// open builds the library side and connects the raw peer to it ("run" step).
func (w *wireRig) open() error {
	cfg := w.sc.Cfg
	store := memory.NewStorage()
	preload(store, cfg.StartSeq)
	allowed := cfg.Allowed
	if allowed == nil {
		allowed = []string{"0"}
	}
	if cfg.Role == "acceptor" {
		// ONE acceptor (per handler buffer size) serves the connections of all scenarios, as a server does; the set-up of a
		// connection (dial, callback) is serialised so that the callback knows which scenario it is creating the session for
		sa := sharedAcceptor(cfg.Buf)
		sa.mu.Lock()
		defer sa.mu.Unlock()
		ready := make(chan error, 1)
		sa.onNew = func(h simplefixgo.AcceptorHandler) {
			s, err := session.NewAcceptorSession(sharedOpts(allowed), h, &session.LogonSettings{
				LogonTimeout:  30 * time.Second,
				CloseTimeout:  time.Duration(cfg.CloseMs) * time.Millisecond,
				HeartBtLimits: &session.IntLimits{Min: cfg.HbMin, Max: cfg.HbMax},
			}, func(req *session.LogonSettings) error {
				if req.Password == "bad" {
					return errors.New("refused by the application")
				}
				return nil
			}, store, store)
			if err != nil {
				ready <- err
				return
			}
			dh, ok := h.(*simplefixgo.DefaultHandler)
			if !ok {
				ready <- errors.New("acceptor handler is not a *DefaultHandler")
				return
			}
			w.watch(s, dh)
			w.S, w.H, w.C0 = s, dh, s.Context()
			s.SetUnmarshaller(sess.SharedUnmarshaller(!cfg.NonStrict)) // one unmarshaller object for all sessions of the application
			ready <- s.Run()
		}
		c, err := net.Dial("tcp", sa.addr)
		if err != nil {
			return err
		}
		w.peer = c
		select {
		case err := <-ready:
			return err
		case <-time.After(3 * time.Second):
			return errors.New("acceptor did not call back")
		}
	}
	l, err := net.Listen("tcp", "127.0.0.1:0")
	if err != nil {
		return err
	}
	// initiator: the raw peer listens
	defer l.Close()
	connCh := make(chan net.Conn, 1)
	go func() {
		c, err := l.Accept()
		if err == nil {
			connCh <- c
		}
	}()
	conn, err := net.Dial("tcp", l.Addr().String())
	if err != nil {
		return err
	}
	select {
	case w.peer = <-connCh:
	case <-time.After(3 * time.Second):
		return errors.New("raw peer did not get the connection")
	}
	h := simplefixgo.NewInitiatorHandler(context.Background(), fixgen.FieldMsgType, cfg.Buf)
	ini := simplefixgo.NewInitiator(conn, h, cfg.Buf, 2*time.Second)
	s, err := session.NewInitiatorSession(h, sharedOpts(allowed), &session.LogonSettings{
		TargetCompID: "PEER", SenderCompID: "SRV",
		HeartBtInt: cfg.HbCfg, EncryptMethod: cfg.EncCfg, Username: "user", Password: "good",
		CloseTimeout: time.Duration(cfg.CloseMs) * time.Millisecond,
	}, store, store)
	if err != nil {
		return err
	}
	w.watch(s, h)
	w.S, w.H, w.C0 = s, h, s.Context()
	s.SetUnmarshaller(sess.SharedUnmarshaller(!cfg.NonStrict))
	w.stop = append(w.stop, ini.Close, func() { conn.Close() })
	go func() { _ = ini.Serve() }() // (before Run: with a queue of size 0 the Logon can only leave once somebody takes it)
	if err := s.Run(); err != nil {
		return err
	}
	return nil
}

// settle reads from the raw socket until nothing has arrived for quietMs; returns the complete messages.
func (w *wireRig) settle() [][]byte {
	var msgs [][]byte
	if w.peer == nil {
		time.Sleep(quietMs * time.Millisecond)
		return nil
	}
	buf := make([]byte, 65536)
	for {
		_ = w.peer.SetReadDeadline(time.Now().Add(quietMs * time.Millisecond))
		n, err := w.peer.Read(buf)
		if n > 0 {
			w.acc = append(w.acc, buf[:n]...)
			for {
				m, rest, ok := cut(w.acc)
				if !ok {
					break
				}
				msgs = append(msgs, append([]byte{}, m...))
				w.acc = append([]byte{}, rest...)
			}
			continue
		}
		if err != nil {
			return msgs // quiet (deadline) or closed
		}
	}
}

func tsNow() string { return time.Now().UTC().Format("20060102-15:04:05.000") }

func runWire(sc *sess.Scenario) (recs []interface{}, failure string) {
	w := &wireRig{sc: sc, start: time.Now()}
	defer func() {
		for _, f := range w.stop {
			f()
		}
		if w.peer != nil {
			w.peer.Close()
		}
	}()
	recs = append(recs, sess.InitObs{K: "init", ID: sc.ID, Cfg: sc.Cfg})
	digest := func(raws [][]byte) []sess.Digest {
		outs := []sess.Digest{}
		for _, raw := range raws {
			d := sess.MakeDigest(raw)
			d.T = w.ms()
			for j, old := range w.all {
				if bytes.Equal(old, raw) {
					d.DupOf = j + 1
					break
				}
			}
			w.all = append(w.all, raw)
			outs = append(outs, d)
		}
		return outs
	}
	for i := 0; i < len(sc.Steps); i++ {
		a := sc.Steps[i]
		if a.Pipe && w.S != nil {
			// a pipelined batch: one write, outputs attributed by content; the steps before the last one change neither the
			// logged-on state nor the context (damaged messages, TestRequests), so they carry the observations made before the write
			j := i
			var batch []byte
			for j < len(sc.Steps) && sc.Steps[j].Pipe {
				b := sc.Steps[j]
				batch = append(batch, sess.Inbound(&b, "PEER", "SRV", tsNow())...)
				j++
			}
			t0 := w.ms()
			logged0, ctx0, hctx0 := w.S.IsLogged(), w.C0.Err() != nil, w.H.Context().Err() != nil
			_ = w.peer.SetWriteDeadline(time.Now().Add(time.Second))
			_, _ = w.peer.Write(batch)
			outs := digest(w.settle())
			per := make([][]sess.Digest, j-i)
			for k := range per {
				per[k] = []sess.Digest{}
			}
			for _, d := range outs {
				at := j - i - 1
				for k := i; k < j; k++ {
					b := sc.Steps[k]
					if (d.Ty == "3" && d.RefSeq == b.Seq) || (d.Ty == "0" && b.A == "testreq" && len(d.Trid) > 0 && string(sess.IDBytes(d.Trid)) == string(sess.IDBytes(b.ID))) ||
						(d.Ty == "5" && b.A == "logout") {
						at = k - i
						break
					}
				}
				per[at] = append(per[at], d)
			}
			w.mu.Lock()
			evs := w.evs
			w.evs = nil
			w.mu.Unlock()
			if evs == nil {
				evs = []sess.EvObs{}
			}
			for k := i; k < j; k++ {
				o := sess.StepObs{K: "step", ID: sc.ID, I: k + 1, A: sc.Steps[k], T: t0, Outs: per[k-i], Logged: logged0, Ctx: ctx0, HCtx: hctx0,
					Events: []sess.EvObs{}, Saves: []int{}}
				if k == j-1 {
					o.Logged, o.Ctx, o.HCtx, o.Events = w.S.IsLogged(), w.C0.Err() != nil, w.H.Context().Err() != nil, evs
				}
				recs = append(recs, o)
			}
			i = j - 1
			continue
		}
		t0 := w.ms()
		callErr := false
		switch a.A {
		case "run":
			if err := w.open(); err != nil {
				return nil, "open: " + err.Error()
			}
		case "send":
			callErr = w.S.Send(fixgen.NewMarketDataRequest().SetMDReqID("req")) != nil
		case "llogout":
			callErr = w.S.Logout() != nil
		case "stop":
			callErr = w.S.Stop() != nil
		case "relogon":
			_ = w.S.LogonRequest()
		case "advance":
			return nil, "timed step in a wire scenario"
		default:
			raw := sess.Inbound(&a, "PEER", "SRV", tsNow())
			_ = w.peer.SetWriteDeadline(time.Now().Add(time.Second))
			_, _ = w.peer.Write(raw) // a connection the library has closed: nothing is delivered, nothing comes back
		}
		outs := digest(w.settle())
		w.mu.Lock()
		evs := w.evs
		w.evs = nil
		w.mu.Unlock()
		if evs == nil {
			evs = []sess.EvObs{}
		}
		recs = append(recs, sess.StepObs{K: "step", ID: sc.ID, I: i + 1, A: a, T: t0, Outs: outs,
			Logged: w.S.IsLogged(), Ctx: w.C0.Err() != nil, HCtx: w.H.Context().Err() != nil,
			Events: evs, Err: callErr, Saves: []int{}})
	}
	return recs, ""
}

func TestWireSess(t *testing.T) {
	in, outDir := os.Getenv("VERIF_STACK_IN"), os.Getenv("VERIF_STACK_OUT")
	if in == "" || outDir == "" {
		t.Skip("VERIF_STACK_IN / VERIF_STACK_OUT not set")
	}
	data, err := os.ReadFile(in)
	if err != nil {
		t.Fatal(err)
	}
	var scs []sess.Scenario
	if err := json.Unmarshal(data, &scs); err != nil {
		t.Fatal(err)
	}
	var wg sync.WaitGroup
	var mu sync.Mutex
	out := make([][]interface{}, len(scs))
	fails := map[string]string{}
	sem := make(chan struct{}, 48)
	for i := range scs {
		i := i
		wg.Add(1)
		sem <- struct{}{}
		go func() {
			defer wg.Done()
			defer func() { <-sem }()
			r, f := runWire(&scs[i])
			mu.Lock()
			out[i] = r
			if f != "" {
				fails[scs[i].ID] = f
			}
			mu.Unlock()
		}()
	}
	wg.Wait()
	closeSharedAcceptors()
	f, err := os.Create(filepath.Join(outDir, "wiresess.ndjson"))
	if err != nil {
		t.Fatal(err)
	}
	enc := json.NewEncoder(f)
	for _, recs := range out {
		for _, r := range recs {
			_ = enc.Encode(r)
		}
	}
	f.Close()
	fj, _ := json.Marshal(fails)
	_ = os.WriteFile(filepath.Join(outDir, "fails.json"), fj, 0o644)
}

// ---- several sessions of ONE application at the same time (C05, C14): one acceptor, one options value, one unmarshaller object
// installed in every session (Session.SetUnmarshaller), stores of their own (every other one slow); every client logs on under
// its own identifier and sends its own TestRequests "qNNN" in bursts.  What each client receives is one WireTrace record.

type slowStore struct{ *memory.Storage }

func (s slowStore) Save(id fix.StorageID, m simplefixgo.SendingMessage, n int) error {
	time.Sleep(300 * time.Microsecond)
	return s.Storage.Save(id, m, n)
}

func TestWireShared(t *testing.T) {
	outDir := os.Getenv("VERIF_STACK_OUT")
	if outDir == "" {
		t.Skip("VERIF_STACK_OUT not set")
	}
	const clients, perClient = 6, 100
	l, err := net.Listen("tcp", "127.0.0.1:0")
	if err != nil {
		t.Fatal(err)
	}
	opts := sess.Opts([]string{"0"})
	var nmu sync.Mutex
	nsess := 0
	acc := simplefixgo.NewAcceptor(l, simplefixgo.NewAcceptorHandlerFactory(fixgen.FieldMsgType, 10), 2*time.Second,
		func(h simplefixgo.AcceptorHandler) {
			nmu.Lock()
			k := nsess
			nsess++
			nmu.Unlock()
			mem := memory.NewStorage()
			var ms session.MessageStorage = mem
			if k%2 == 0 {
				ms = slowStore{mem}
			}
			s, err := session.NewAcceptorSession(opts, h, &session.LogonSettings{LogonTimeout: 30 * time.Second, CloseTimeout: time.Second,
				HeartBtLimits: &session.IntLimits{Min: 1, Max: 60}}, func(*session.LogonSettings) error { return nil }, mem, ms)
			if err != nil {
				return
			}
			s.SetUnmarshaller(sess.SharedUnmarshaller(true))
			_ = s.Run()
		})
	go func() { _ = acc.ListenAndServe() }()
	defer func() { acc.Close(); l.Close() }()
	recs := make([]sess.WireObs, clients)
	var wg sync.WaitGroup
	start := make(chan struct{})
	for k := 0; k < clients; k++ {
		k := k
		wg.Add(1)
		go func() {
			defer wg.Done()
			me := "P" + string(rune('0'+k))
			o := sess.WireObs{K: "wire", ID: "shared/" + me, Kind: "shared", Feasible: true, Order: []int{}, ExpEcho: []int{},
				ExpSender: sess.Ints([]byte("SRV")), ExpTarget: sess.Ints([]byte(me)), Msgs: []sess.WireRec{}}
			defer func() { recs[k] = o }()
			c, err := net.Dial("tcp", l.Addr().String())
			if err != nil {
				return
			}
			defer c.Close()
			var buf, all = []byte{}, [][]byte{}
			t0 := time.Now()
			echoes := 0
			read := func(until func() bool, d time.Duration) {
				deadline := time.Now().Add(d)
				tmp := make([]byte, 65536)
				for !until() && time.Now().Before(deadline) {
					_ = c.SetReadDeadline(time.Now().Add(100 * time.Millisecond))
					n, err := c.Read(tmp)
					buf = append(buf, tmp[:n]...)
					for {
						m, rest, ok := cut(buf)
						if !ok {
							break
						}
						w := sess.WireRecOf(append([]byte{}, m...), &all, time.Since(t0).Milliseconds())
						if w.Ty == "0" && len(w.Trid) > 0 {
							echoes++
						}
						o.Msgs = append(o.Msgs, w)
						buf = append([]byte{}, rest...)
					}
					if err != nil {
						if ne, ok := err.(net.Error); ok && ne.Timeout() {
							continue
						}
						return
					}
				}
			}
			seq := 1
			lg := &sess.Action{A: "logon", Seq: seq, Sq: "ok", Integ: "none", Hb: 30, Enc: "0", Cred: true, ID: []int{}}
			_, _ = c.Write(sess.Inbound(lg, me, "SRV", tsNow()))
			read(func() bool { return len(o.Msgs) >= 1 }, 3*time.Second)
			<-start
			for n := 0; n < perClient; {
				var chunk []byte
				for j := 0; j < 10 && n < perClient; j, n = j+1, n+1 {
					seq++
					num := k*perClient + n
					o.ExpEcho = append(o.ExpEcho, num)
					id := []int{'q', '0' + num/100, '0' + num/10%10, '0' + num%10}
					a := &sess.Action{A: "testreq", Seq: seq, Sq: "ok", Integ: "none", Enc: "0", Cred: true, ID: id}
					chunk = append(chunk, sess.Inbound(a, me, "SRV", tsNow())...)
				}
				_, _ = c.Write(chunk)
				read(func() bool { return true }, 0)
			}
			read(func() bool { return echoes >= perClient }, 8*time.Second)
		}()
	}
	time.Sleep(300 * time.Millisecond) // every client is logged on: the bursts start together
	close(start)
	wg.Wait()
	f, err := os.Create(filepath.Join(outDir, "shared.ndjson"))
	if err != nil {
		t.Fatal(err)
	}
	enc := json.NewEncoder(f)
	for _, r := range recs {
		_ = enc.Encode(r)
	}
	f.Close()
}
