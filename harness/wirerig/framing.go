// Package wirerig drives the real Acceptor / Initiator / Conn over scripted in-memory connections.
package wirerig

import (
	"context"
	"errors"
	"io"
	"net"
	"os"
	"sync"
	"time"

	simplefixgo "github.com/b2broker/simplefix-go"
	"github.com/b2broker/simplefix-go/session/messages"
	fixgen "github.com/b2broker/simplefix-go/tests/fix44"
)

// ScriptConn is a net.Conn whose Read returns exactly the scripted chunks.
type ScriptConn struct {
	mu      sync.Mutex
	chunks  [][]byte
	gaps    []time.Duration // gaps[i]: how long chunk i arrives after chunk i-1 was read
	avail   time.Time       // when the next chunk becomes available
	rdl     time.Time       // read deadline
	idx     int
	closed  chan struct{}
	once    sync.Once
	Writes  [][]byte
	wrote   chan struct{}
	consumed chan struct{}
	endErr  error // when set: what Read returns once every chunk has been read (the peer died); otherwise Read blocks until Close
	// write faults: the Write call that would carry the stream past faultAt[k] bytes accepts only the bytes up to there and
	// returns a timeout (a peer that stopped reading for longer than the write deadline, then reads again)
	faultAt []int
	wrote_  int
}

type timeoutErr struct{}

func (timeoutErr) Error() string   { return "write: i/o timeout" }
func (timeoutErr) Timeout() bool   { return true }
func (timeoutErr) Temporary() bool { return true }
func (timeoutErr) Is(target error) bool { return target == os.ErrDeadlineExceeded }

var _ net.Error = timeoutErr{}


func NewScriptConn(chunks [][]byte) *ScriptConn {
	return &ScriptConn{chunks: chunks, closed: make(chan struct{}), wrote: make(chan struct{}, 1024), consumed: make(chan struct{})}
}

func (c *ScriptConn) Read(p []byte) (int, error) {
	c.mu.Lock()
	if c.idx < len(c.chunks) {
		// the chunk may not have "arrived" yet: wait for it, or for the read deadline
		if wait := time.Until(c.avail); wait > 0 {
			dl := c.rdl
			c.mu.Unlock()
			if !dl.IsZero() && time.Until(dl) < wait {
				if d := time.Until(dl); d > 0 {
					time.Sleep(d)
				}
				return 0, os.ErrDeadlineExceeded
			}
			time.Sleep(wait)
			c.mu.Lock()
		}
		ch := c.chunks[c.idx]
		n := copy(p, ch)
		if n < len(ch) {
			c.chunks[c.idx] = ch[n:]
		} else {
			c.idx++
			if c.idx < len(c.gaps) {
				c.avail = time.Now().Add(c.gaps[c.idx])
			}
			if c.idx == len(c.chunks) {
				close(c.consumed)
			}
		}
		c.mu.Unlock()
		return n, nil
	}
	dl := c.rdl
	endErr := c.endErr
	c.mu.Unlock()
	if endErr != nil {
		return 0, endErr
	}
	if !dl.IsZero() {
		// an idle connection with a read deadline: time out instead of blocking for ever
		select {
		case <-c.closed:
			return 0, io.EOF
		case <-time.After(time.Until(dl)):
			return 0, os.ErrDeadlineExceeded
		}
	}
	<-c.closed
	return 0, io.EOF
}

func (c *ScriptConn) Write(p []byte) (int, error) {
	select {
	case <-c.closed:
		return 0, errors.New("use of closed network connection")
	default:
	}
	c.mu.Lock()
	defer c.mu.Unlock()
	if len(c.faultAt) > 0 && c.wrote_+len(p) > c.faultAt[0] {
		n := c.faultAt[0] - c.wrote_
		if n < 0 {
			n = 0
		}
		c.faultAt = c.faultAt[1:]
		if n > 0 {
			c.Writes = append(c.Writes, append([]byte{}, p[:n]...))
			c.wrote_ += n
		}
		return n, timeoutErr{}
	}
	c.Writes = append(c.Writes, append([]byte{}, p...))
	c.wrote_ += len(p)
	return len(p), nil
}

func (c *ScriptConn) Close() error                       { c.once.Do(func() { close(c.closed) }); return nil }
func (c *ScriptConn) LocalAddr() net.Addr                { return &net.TCPAddr{} }
func (c *ScriptConn) RemoteAddr() net.Addr               { return &net.TCPAddr{} }
func (c *ScriptConn) SetDeadline(t time.Time) error      { return c.SetReadDeadline(t) }
func (c *ScriptConn) SetReadDeadline(t time.Time) error {
	c.mu.Lock()
	c.rdl = t
	c.mu.Unlock()
	return nil
}
func (c *ScriptConn) SetWriteDeadline(t time.Time) error { return nil }
func (c *ScriptConn) IsClosed() bool {
	select {
	case <-c.closed:
		return true
	default:
		return false
	}
}

// ScriptListener hands out the scripted connections, then blocks until closed.
type ScriptListener struct {
	conns  chan net.Conn
	closed chan struct{}
	once   sync.Once
}

func (l *ScriptListener) Accept() (net.Conn, error) {
	select {
	case c := <-l.conns:
		return c, nil
	case <-l.closed:
		return nil, errors.New("listener closed")
	}
}
func (l *ScriptListener) Close() error   { l.once.Do(func() { close(l.closed) }); return nil }
func (l *ScriptListener) Addr() net.Addr { return &net.TCPAddr{} }

type B []int

func toB(b []byte) B {
	r := make(B, len(b))
	for i, c := range b {
		r[i] = int(c)
	}
	return r
}
func (b B) bytes() []byte {
	r := make([]byte, len(b))
	for i, c := range b {
		r[i] = byte(c)
	}
	return r
}

type ConnScript struct {
	Sent   []B   `json:"sent"`   // messages the peer sends on this connection
	Chunks []int `json:"chunks"` // sizes of the read chunks (sum = total stream length)
	GapsMs []int `json:"gapsMs"` // read timing: chunk i arrives this long after chunk i-1 was read (missing: at once)
	Out    int   `json:"out"`    // number of outbound messages to hand to this connection
	// Tail: bytes of a further, INCOMPLETE message that follow the complete ones; Dies: "" (the connection stays open), "eof" or
	// "reset": what the reader gets after the last byte.  The next connection of the scenario is opened only after this one died.
	Tail B      `json:"tail"`
	Dies string `json:"dies"`
	// WriteFaults: stream offsets at which a Write accepts only part of its bytes and times out
	WriteFaults []int `json:"writeFaults"`
	// StopAt (k > 0): the application stops the handler while the k-th message of this connection is inside its (slow) callback -
	// from another goroutine, or (StopInside) from the callback itself.  What was queued may still be delivered or not; what IS
	// delivered is still the first messages the peer sent, in order, one at a time.
	StopAt     int  `json:"stopAt"`
	StopInside bool `json:"stopInside"`
}

type FScenario struct {
	ID      string       `json:"id"`
	Role    string       `json:"role"` // acceptor | initiator
	Buf     int          `json:"buf"`
	Conns   []ConnScript `json:"conns"`
	Senders int          `json:"senders"`
	// Simultaneous: all connections are waiting in the listener's backlog when the acceptor starts accepting (no outbound half;
	// the first message of every connection is unique: a handler is matched to its connection by the first message it is given)
	Simultaneous bool `json:"simultaneous"`
}

type FrameObs struct {
	K         string `json:"k"` // frame
	ID        string `json:"id"`
	Role      string `json:"role"`
	Conn      int    `json:"conn"`
	Sent      []B    `json:"sent"`
	Chunks    []int  `json:"chunks"`
	Delivered []B    `json:"delivered"`
	Handoff   []B    `json:"handoff"`
	Written   []B    `json:"written"`
	Overlap   bool   `json:"overlap"` // two handler callbacks of this connection ran at the same time
	WriteFault bool  `json:"writeFault"` // the transport failed a write: the outbound stream may end early (a prefix)
	// Stopped (k > 0): the application stopped the handler while message k was inside its callback. The property does not speak
	// about a stopped handler: the first k messages were delivered as sent; whatever is delivered after them is still some of
	// the later messages, each at most once, in the order sent, one at a time.
	Stopped int `json:"stopped"`
}

type rec struct {
	mu        sync.Mutex
	delivered []B
	handoff   []B
	inCb      int
	overlap   bool
}

func attach(h interface {
	HandleIncoming(string, simplefixgo.IncomingHandlerFunc) int64
	HandleOutgoing(string, simplefixgo.OutgoingHandlerFunc) int64
	Stop()
}, r *rec, cs *ConnScript) {
	h.HandleIncoming(simplefixgo.AllMsgTypes, func(b []byte) bool {
		r.mu.Lock()
		r.inCb++
		if r.inCb > 1 {
			r.overlap = true
		}
		r.delivered = append(r.delivered, toB(b))
		k := len(r.delivered)
		r.mu.Unlock()
		if cs.StopAt > 0 && k == cs.StopAt {
			if cs.StopInside {
				h.Stop()
				time.Sleep(5 * time.Millisecond)
			} else {
				go h.Stop()
				time.Sleep(20 * time.Millisecond)
			}
		}
		time.Sleep(50 * time.Microsecond)
		r.mu.Lock()
		r.inCb--
		r.mu.Unlock()
		return true
	})
	h.HandleOutgoing(simplefixgo.AllMsgTypes, func(m simplefixgo.SendingMessage) bool {
		b, _ := m.ToBytes()
		r.mu.Lock()
		r.handoff = append(r.handoff, toB(b))
		r.mu.Unlock()
		return true
	})
}

type plainMsg struct{ m *fixgen.MarketDataRequest }

func (p plainMsg) HeaderBuilder() messages.HeaderBuilder { return p.m.HeaderBuilder() }
func (p plainMsg) MsgType() string                       { return p.m.MsgType() }
func (p plainMsg) ToBytes() ([]byte, error)              { return p.m.ToBytes() }

func chunksOf(cs *ConnScript) [][]byte {
	var stream []byte
	for _, m := range cs.Sent {
		stream = append(stream, m.bytes()...)
	}
	stream = append(stream, cs.Tail.bytes()...)
	var out [][]byte
	off := 0
	for _, n := range cs.Chunks {
		if off+n > len(stream) {
			n = len(stream) - off
		}
		if n <= 0 {
			break
		}
		out = append(out, stream[off:off+n])
		off += n
	}
	if off < len(stream) {
		out = append(out, stream[off:])
	}
	return out
}

func waitFor(d time.Duration, cond func() bool) bool {
	end := time.Now().Add(d)
	for time.Now().Before(end) {
		if cond() {
			return true
		}
		time.Sleep(200 * time.Microsecond)
	}
	return cond()
}

// RunFraming executes one scenario in real time and returns one record per connection.
func RunFraming(sc *FScenario) ([]FrameObs, string) {
	n := len(sc.Conns)
	conns := make([]*ScriptConn, n)
	recs := make([]*rec, n)
	handlers := make([]interface {
		Send(simplefixgo.SendingMessage) error
	}, n)
	for i := range sc.Conns {
		conns[i] = NewScriptConn(chunksOf(&sc.Conns[i]))
		for _, g := range sc.Conns[i].GapsMs {
			conns[i].gaps = append(conns[i].gaps, time.Duration(g)*time.Millisecond)
		}
		conns[i].faultAt = append([]int{}, sc.Conns[i].WriteFaults...)
		switch sc.Conns[i].Dies {
		case "eof":
			conns[i].endErr = io.EOF
		case "reset":
			conns[i].endErr = errors.New("read: connection reset by peer")
		}
		recs[i] = &rec{}
	}
	var cleanup func()
	if sc.Role == "initiator" {
		if n != 1 {
			return nil, "initiator scenarios have one connection"
		}
		h := simplefixgo.NewInitiatorHandler(context.Background(), fixgen.FieldMsgType, sc.Buf)
		attach(h, recs[0], &sc.Conns[0])
		handlers[0] = h
		ini := simplefixgo.NewInitiator(conns[0], h, sc.Buf, time.Second)
		go func() { _ = ini.Serve() }()
		cleanup = func() { ini.Close() }
	} else {
		l := &ScriptListener{conns: make(chan net.Conn, n), closed: make(chan struct{})}
		var mu sync.Mutex
		next := 0
		ready := make(chan struct{}, n)
		acc := simplefixgo.NewAcceptor(l, simplefixgo.NewAcceptorHandlerFactory(fixgen.FieldMsgType, sc.Buf), time.Second,
			func(h simplefixgo.AcceptorHandler) {
				mu.Lock()
				i := next
				next++
				mu.Unlock()
				attach(h, recs[i], &sc.Conns[i])
				handlers[i] = h
				ready <- struct{}{}
			})
		go func() { _ = acc.ListenAndServe() }()
		if sc.Simultaneous {
			for i := 0; i < n; i++ {
				l.conns <- conns[i]
			}
			for i := 0; i < n; i++ {
				select {
				case <-ready:
				case <-time.After(2 * time.Second):
					return nil, "acceptor did not create a handler for a connection"
				}
			}
		}
		// connections are accepted one after the other so that handler i belongs to connection i
		for i := 0; i < n && !sc.Simultaneous; i++ {
			l.conns <- conns[i]
			select {
			case <-ready:
			case <-time.After(2 * time.Second):
				return nil, "acceptor did not create a handler for a connection"
			}
			if sc.Conns[i].Dies != "" {
				// the next connection starts after this one has died and its reader has had time to go away
				select {
				case <-conns[i].consumed:
				case <-time.After(2 * time.Second):
				}
				time.Sleep(5 * time.Millisecond)
			}
		}
		cleanup = func() { acc.Close(); l.Close() }
	}
	// inbound half: wait until every connection delivered what its peer sent (or time out)
	for i := range sc.Conns {
		i := i
		total := 2 * time.Second
		for _, g := range sc.Conns[i].GapsMs {
			total += time.Duration(g) * time.Millisecond
		}
		waitFor(total, func() bool {
			recs[i].mu.Lock()
			defer recs[i].mu.Unlock()
			if sc.Conns[i].StopAt > 0 {
				return len(recs[i].delivered) >= sc.Conns[i].StopAt
			}
			return len(recs[i].delivered) >= len(sc.Conns[i].Sent)
		})
		if sc.Conns[i].StopAt > 0 {
			time.Sleep(150 * time.Millisecond) // what was queued behind the stop may still be dispatched
		}
	}
	if sc.Simultaneous {
		// the handlers were created in an order of their own: wait until every connection's messages have arrived somewhere,
		// then match handler k to the connection whose first message it was given first
		waitFor(2*time.Second, func() bool {
			tot, want := 0, 0
			for i := range recs {
				recs[i].mu.Lock()
				tot += len(recs[i].delivered)
				recs[i].mu.Unlock()
				want += len(sc.Conns[i].Sent)
			}
			return tot >= want
		})
		time.Sleep(20 * time.Millisecond)
		perm := make([]*rec, n)
		used := make([]bool, n)
		for k := range recs {
			recs[k].mu.Lock()
			var first B
			if len(recs[k].delivered) > 0 {
				first = recs[k].delivered[0]
			}
			recs[k].mu.Unlock()
			for i := range sc.Conns {
				if perm[i] == nil && first != nil && len(sc.Conns[i].Sent) > 0 && string(first.bytes()) == string(sc.Conns[i].Sent[0].bytes()) {
					perm[i], used[k] = recs[k], true
					break
				}
			}
		}
		for i := range perm { // whatever could not be matched
			if perm[i] == nil {
				for k := range recs {
					if !used[k] {
						perm[i], used[k] = recs[k], true
						break
					}
				}
			}
		}
		recs = perm
	}
	time.Sleep(2 * time.Millisecond) // anything delivered in excess shows up
	// outbound half: several goroutines hand messages to each connection
	var wg sync.WaitGroup
	for i := range sc.Conns {
		per := sc.Conns[i].Out
		for s := 0; s < sc.Senders; s++ {
			wg.Add(1)
			go func(i, s int) {
				defer wg.Done()
				for k := s; k < per; k += sc.Senders {
					m := fixgen.NewMarketDataRequest().SetMDReqID("c" + string(rune('0'+i)) + "-" + string(rune('a'+s)) + string(rune('0'+k%10)) + "10=")
					m.HeaderBuilder().SetFieldMsgSeqNum(k + 1).SetFieldSenderCompID("S").SetFieldTargetCompID("T")
					_ = handlers[i].Send(plainMsg{m})
				}
			}(i, s)
		}
	}
	// a Send that never returns (handler gone, nobody draining the queue) must not hang the driver
	sendersDone := make(chan struct{})
	go func() { wg.Wait(); close(sendersDone) }()
	select {
	case <-sendersDone:
	case <-time.After(3 * time.Second):
	}
	for i := range sc.Conns {
		i := i
		wait := 2 * time.Second
		if len(sc.Conns[i].WriteFaults) > 0 {
			wait = 300 * time.Millisecond // the connection may have been given up: nothing more will come
		}
		waitFor(wait, func() bool {
			conns[i].mu.Lock()
			defer conns[i].mu.Unlock()
			return len(conns[i].Writes) >= sc.Conns[i].Out+len(sc.Conns[i].WriteFaults)+1
		})
	}
	var out []FrameObs
	for i := range sc.Conns {
		recs[i].mu.Lock()
		conns[i].mu.Lock()
		o := FrameObs{K: "frame", ID: sc.ID, Role: sc.Role, Conn: i, Sent: sc.Conns[i].Sent, Chunks: sc.Conns[i].Chunks,
			Delivered: recs[i].delivered, Handoff: recs[i].handoff, Overlap: recs[i].overlap, WriteFault: len(sc.Conns[i].WriteFaults) > 0}
		for _, w := range conns[i].Writes {
			o.Written = append(o.Written, toB(w))
		}
		conns[i].mu.Unlock()
		recs[i].mu.Unlock()
		// a connection whose peer died: the property says nothing about messages still on their way to the handler at that moment;
		// what WAS delivered must still be exactly the first messages the peer sent
		if sc.Conns[i].Dies != "" && len(o.Delivered) < len(o.Sent) {
			o.Sent = o.Sent[:len(o.Delivered)]
		}
		// (messages queued behind a stop of the handler may or may not be delivered: judged by the specification, see Stopped)
		o.Stopped = sc.Conns[i].StopAt
		if o.Delivered == nil {
			o.Delivered = []B{}
		}
		if o.Handoff == nil {
			o.Handoff = []B{}
		}
		if o.Written == nil {
			o.Written = []B{}
		}
		if o.Sent == nil {
			o.Sent = []B{}
		}
		out = append(out, o)
	}
	cleanup()
	for i := range conns {
		conns[i].Close()
	}
	return out, ""
}
