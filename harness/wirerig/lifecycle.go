package wirerig

import (
	"context"
	"errors"
	"io"
	"net"
	"os"
	"regexp"
	"runtime"
	"strconv"
	"strings"
	"sync"
	"sync/atomic"
	"testing"
	"time"

	simplefixgo "github.com/b2broker/simplefix-go"
	"github.com/b2broker/simplefix-go/session"
	"github.com/b2broker/simplefix-go/storages/memory"
	"github.com/b2broker/simplefix-go/utils"
	fixgen "github.com/b2broker/simplefix-go/tests/fix44"

	"verifharness/sess"
)

// ---- C13: fault placement on a scripted connection (Lifecycle.tla) ----

type inEvent struct {
	data  []byte
	err   error
	delay time.Duration // a read error that takes this long to surface (the Read call is already in progress)
	sticky bool         // the error stays: every later Read fails with it too (a read deadline that has passed)
}

// readTimeoutErr: what a net.Conn returns when its read deadline has passed (a net.Error that calls itself a timeout and temporary)
type readTimeoutErr struct{}

func (readTimeoutErr) Error() string         { return "read: i/o timeout" }
func (readTimeoutErr) Timeout() bool         { return true }
func (readTimeoutErr) Temporary() bool       { return true }
func (readTimeoutErr) Is(target error) bool { return target == os.ErrDeadlineExceeded }

var _ net.Error = readTimeoutErr{}

// LifeConn is a scripted net.Conn: reads are fed event by event, writes succeed, fail, or block
// until the write deadline (a peer that stopped reading).
type LifeConn struct {
	mu        sync.Mutex
	in        chan inEvent
	pending   []byte
	closed    chan struct{}
	once      sync.Once
	writeMode string
	deadline  time.Time
	Writes    [][]byte
	readErr   error
}

func NewLifeConn() *LifeConn {
	return &LifeConn{in: make(chan inEvent, 256), closed: make(chan struct{}), writeMode: "ok"}
}

func (c *LifeConn) Read(p []byte) (int, error) {
	c.mu.Lock()
	if len(c.pending) > 0 {
		n := copy(p, c.pending)
		c.pending = c.pending[n:]
		c.mu.Unlock()
		return n, nil
	}
	if err := c.readErr; err != nil {
		c.mu.Unlock()
		select {
		case <-c.closed:
			return 0, errors.New("read: use of closed network connection")
		case <-time.After(time.Millisecond):
		}
		return 0, err
	}
	c.mu.Unlock()
	select {
	case ev := <-c.in:
		if ev.err != nil {
			if ev.delay > 0 {
				time.Sleep(ev.delay)
			}
			if ev.sticky {
				c.mu.Lock()
				c.readErr = ev.err
				c.mu.Unlock()
			}
			return 0, ev.err
		}
		n := copy(p, ev.data)
		if n < len(ev.data) {
			c.mu.Lock()
			c.pending = ev.data[n:]
			c.mu.Unlock()
		}
		return n, nil
	case <-c.closed:
		return 0, errors.New("read: use of closed network connection")
	}
}

func (c *LifeConn) Write(p []byte) (int, error) {
	c.mu.Lock()
	mode, dl := c.writeMode, c.deadline
	c.mu.Unlock()
	select {
	case <-c.closed:
		return 0, errors.New("write: use of closed network connection")
	default:
	}
	switch mode {
	case "error":
		return 0, errors.New("write: broken pipe")
	case "block":
		d := time.Until(dl)
		if dl.IsZero() {
			d = time.Hour
		}
		select {
		case <-time.After(d):
			return 0, os.ErrDeadlineExceeded
		case <-c.closed:
			return 0, errors.New("write: use of closed network connection")
		}
	}
	c.mu.Lock()
	c.Writes = append(c.Writes, append([]byte{}, p...))
	c.mu.Unlock()
	return len(p), nil
}

func (c *LifeConn) Close() error                      { c.once.Do(func() { close(c.closed) }); return nil }
func (c *LifeConn) LocalAddr() net.Addr               { return &net.TCPAddr{} }
func (c *LifeConn) RemoteAddr() net.Addr              { return &net.TCPAddr{} }
func (c *LifeConn) SetDeadline(t time.Time) error     { return c.SetWriteDeadline(t) }
func (c *LifeConn) SetReadDeadline(t time.Time) error { return nil }
func (c *LifeConn) SetWriteDeadline(t time.Time) error {
	c.mu.Lock()
	c.deadline = t
	c.mu.Unlock()
	return nil
}
func (c *LifeConn) IsClosed() bool {
	select {
	case <-c.closed:
		return true
	default:
		return false
	}
}
func (c *LifeConn) setMode(m string) { c.mu.Lock(); c.writeMode = m; c.mu.Unlock() }
func (c *LifeConn) writeCount() int  { c.mu.Lock(); defer c.mu.Unlock(); return len(c.Writes) }

type LScenario struct {
	ID      string `json:"id"`
	Role    string `json:"role"`    // acceptor | initiator
	Cause   string `json:"cause"`   // peer_close peer_reset read_timeout write_error peer_stops_reading local_close handler_stop timer_disconnect
	Phase   string `json:"phase"`   // prelogon | handshake | logged | logout
	InIn    int    `json:"inIn"`    // inbound messages in flight when the cause fires
	InOut   int    `json:"inOut"`   // outbound sends in progress when the cause fires
	Buf     int    `json:"buf"`
	SlowCb  bool   `json:"slowCb"`  // the application's incoming callback takes time (pipeline backs up)
	Partial bool   `json:"partial"` // the cause hits inside an inbound message
	BlockCb bool   `json:"blockCb"` // the application's incoming callback blocks until the handler's context ends
	ErrStop bool   `json:"errStop"` // the application's OnError callback stops the session at the first error ("on error: log out")
	Cause2  string `json:"cause2"`  // a second cause shortly after the first ("" = none): overlapping terminations
	GapMs   int    `json:"gapMs"`   // delay between the two causes
	ErrDelayMs int `json:"errDelayMs"` // peer_close / peer_reset: the failing Read returns only after this delay
}

type LifeObs struct {
	K             string   `json:"k"` // life
	ID            string   `json:"id"`
	Scenario      LScenario `json:"scenario"`
	ServeReturned bool     `json:"serveReturned"`
	SockClosed    bool     `json:"sockClosed"`
	Notified      bool     `json:"notified"`
	SendReturned  bool     `json:"sendReturned"`
	SendersDone   bool     `json:"sendersDone"`
	Leaked        []string `json:"leaked"`
	ReachedPhase  bool     `json:"reachedPhase"`
}

var createdBy = regexp.MustCompile(`created by (\S+)`)

// libraryGoroutines returns the creating functions of live goroutines started by the library.
var goroutineID = regexp.MustCompile(`^goroutine (\d+) `)

func maxGoroutineID() int {
	buf := make([]byte, 4<<20)
	n := runtime.Stack(buf, true)
	max := 0
	for _, g := range strings.Split(string(buf[:n]), "\n\n") {
		if m := goroutineID.FindStringSubmatch(g); m != nil {
			id, _ := strconv.Atoi(m[1])
			if id > max {
				max = id
			}
		}
	}
	return max
}

// libraryGoroutines: goroutines created by the library after goroutine id `after`.
func libraryGoroutines(allowAcceptLoop bool, after int) []string {
	buf := make([]byte, 4<<20)
	n := runtime.Stack(buf, true)
	var out []string
	for _, g := range strings.Split(string(buf[:n]), "\n\n") {
		if m := goroutineID.FindStringSubmatch(g); m != nil {
			if id, _ := strconv.Atoi(m[1]); id <= after {
				continue
			}
		}
		m := createdBy.FindStringSubmatch(g)
		if m == nil {
			continue
		}
		cb := m[1]
		if !strings.Contains(cb, "github.com/b2broker/simplefix-go") && !strings.Contains(cb, "golang.org/x/sync/errgroup") {
			continue
		}
		if strings.Contains(cb, "errgroup") && !strings.Contains(g, "github.com/b2broker/simplefix-go") {
			continue
		}
		if allowAcceptLoop && strings.Contains(g, "ListenAndServe.func1") && strings.Contains(g, "Accept") {
			continue
		}
		// name the blocked frame: first library frame of the stack
		frame := cb
		for _, line := range strings.Split(g, "\n") {
			if strings.HasPrefix(line, "github.com/b2broker/simplefix-go") {
				frame = line
				if i := strings.Index(frame, "("); i > 0 && strings.HasSuffix(frame, ")") {
					frame = frame[:strings.LastIndex(frame, "(")]
				}
				break
			}
		}
		out = append(out, frame)
	}
	return out
}

const lifeHb = 1

// RunLifecycle executes one scenario in a bubble. leakExit reports that goroutines are still
// blocked, so the bubble cannot end: the caller must write the record and exit the process.
func RunLifecycle(t *testing.T, sc *LScenario, emit func(*LifeObs)) {
	if sc.Phase == "accept" {
		runAcceptRace(sc, emit)
		return
	}
	if sc.Phase == "callback" {
		runCallbackStop(sc, emit)
		return
	}
	func() {
		baseGid := maxGoroutineID()
		quiesce := func() { time.Sleep(15 * time.Millisecond) }
		o := &LifeObs{K: "life", ID: sc.ID, Scenario: *sc, Leaked: []string{}}
		conn := NewLifeConn()
		var mu sync.Mutex
		notified := false
		note := func() bool { mu.Lock(); notified = true; mu.Unlock(); return true }
		store := memory.NewStorage()
		var s *session.Session
		var h *simplefixgo.DefaultHandler
		serveDone := make(chan struct{})
		var ini *simplefixgo.Initiator
		var acc *simplefixgo.Acceptor
		var lst *ScriptListener
		entered := make(chan struct{}, 1)
		slow := func(b []byte) bool {
			if sc.SlowCb {
				time.Sleep(20 * time.Millisecond)
			}
			if sc.BlockCb && h != nil {
				select {
				case entered <- struct{}{}:
				default:
				}
				// an application callback that hands the message on and waits - until the handler's own context ends (a bounded
				// queue with back-pressure): the end of the connection has to reach the handler while its loop is in here
				select {
				case <-h.Context().Done():
				case <-time.After(3 * time.Second):
				}
			}
			return true
		}
		ready := make(chan struct{}, 1)
		if sc.Role == "initiator" {
			h = simplefixgo.NewInitiatorHandler(context.Background(), fixgen.FieldMsgType, sc.Buf)
			h.OnDisconnect(note)
			h.OnStopped(note)
			h.HandleIncoming(simplefixgo.AllMsgTypes, slow)
			var err error
			s, err = session.NewInitiatorSession(h, sess.Opts([]string{"0"}), &session.LogonSettings{
				TargetCompID: "PEER", SenderCompID: "SRV", HeartBtInt: lifeHb, EncryptMethod: "0", CloseTimeout: 100 * time.Millisecond}, store, store)
			if err != nil {
				t.Fatalf("DRIVER-ERROR %v", err)
			}
			ini = simplefixgo.NewInitiator(conn, h, sc.Buf, 150*time.Millisecond)
			go func() { _ = ini.Serve(); close(serveDone) }()
			_ = s.Run()
		} else {
			lst = &ScriptListener{conns: make(chan net.Conn, 1), closed: make(chan struct{})}
			acc = simplefixgo.NewAcceptor(lst, simplefixgo.NewAcceptorHandlerFactory(fixgen.FieldMsgType, sc.Buf), 150*time.Millisecond,
				func(ah simplefixgo.AcceptorHandler) {
					h = ah.(*simplefixgo.DefaultHandler)
					h.OnDisconnect(note)
					h.OnStopped(note)
					h.HandleIncoming(simplefixgo.AllMsgTypes, slow)
					var err error
					s, err = session.NewAcceptorSession(sess.Opts([]string{"0"}), ah, &session.LogonSettings{
						LogonTimeout: 30 * time.Second, CloseTimeout: 100 * time.Millisecond,
						HeartBtLimits: &session.IntLimits{Min: 1, Max: 60}}, func(*session.LogonSettings) error { return nil }, store, store)
					if err != nil {
						panic(err)
					}
					_ = s.Run()
					ready <- struct{}{}
				})
			go func() { _ = acc.ListenAndServe(); close(serveDone) }()
			lst.conns <- conn
			<-ready
		}
		quiesce()
		if sc.ErrStop {
			var stopped int32 // (not a sync.Once: the failed Logout of Stop is reported to this very callback, on the same goroutine)
			s.OnError(func(error) {
				if atomic.CompareAndSwapInt32(&stopped, 0, 1) {
					_ = s.Stop()
				}
			})
		}
		s.OnChangeState(utils.EventDisconnect, note)
		peerSeq := 0
		now := func() string { return time.Now().UTC().Format("20060102-15:04:05.000") }
		inb := func(a string) []byte {
			peerSeq++
			act := &sess.Action{A: a, Seq: peerSeq, Hb: lifeHb, Enc: "0", Cred: true, Sq: "ok", Integ: "none", ID: []int{65}}
			return sess.Inbound(act, "PEER", "SRV", now())
		}
		// reach the phase
		o.ReachedPhase = true
		switch sc.Phase {
		case "logged", "logout", "relogged":
			conn.in <- inEvent{data: inb("logon")}
			quiesce()
			for i := 0; i < 100 && !s.IsLogged(); i++ {
				time.Sleep(5 * time.Millisecond)
			}
			if sc.Phase == "relogged" && s.IsLogged() {
				// the second lifetime on the same session object: the peer logs out (we answer) and logs on again
				conn.in <- inEvent{data: inb("logout")}
				quiesce()
				for i := 0; i < 100 && s.IsLogged(); i++ {
					time.Sleep(5 * time.Millisecond)
				}
				conn.in <- inEvent{data: inb("logon")}
				quiesce()
				for i := 0; i < 100 && !s.IsLogged(); i++ {
					time.Sleep(5 * time.Millisecond)
				}
			}
			if !s.IsLogged() {
				o.ReachedPhase = false
				if os.Getenv("VERIF_DEBUG") != "" {
					println("logon not reached; writes:", conn.writeCount())
					for _, w := range conn.Writes {
						println(strings.ReplaceAll(string(w), "\x01", "|"))
					}
				}
			}
			if sc.Phase == "logout" {
				_ = s.Logout()
				quiesce()
			}
		case "handshake":
			if sc.Role == "acceptor" {
				raw := inb("logon")
				conn.in <- inEvent{data: raw[:len(raw)/2]}
				quiesce()
			}
		}
		// traffic in flight
		var chunk []byte
		for i := 0; i < sc.InIn; i++ {
			chunk = append(chunk, inb([]string{"hbt", "app", "testreq"}[i%3])...)
		}
		if sc.Partial {
			raw := inb("hbt")
			chunk = append(chunk, raw[:len(raw)-9]...)
		}
		if len(chunk) > 0 {
			conn.in <- inEvent{data: chunk}
		}
		var sendersWg sync.WaitGroup
		for i := 0; i < sc.InOut; i++ {
			sendersWg.Add(1)
			go func() {
				defer sendersWg.Done()
				_ = s.Send(fixgen.NewMarketDataRequest().SetMDReqID("x"))
			}()
		}
		fire := func(cause string) {
			switch cause {
			case "peer_close":
				conn.in <- inEvent{err: io.EOF, delay: time.Duration(sc.ErrDelayMs) * time.Millisecond}
			case "peer_reset":
				conn.in <- inEvent{err: errors.New("read tcp: connection reset by peer"), delay: time.Duration(sc.ErrDelayMs) * time.Millisecond}
			case "read_timeout":
				conn.in <- inEvent{err: readTimeoutErr{}, sticky: true}
			case "local_close":
				if ini != nil {
					ini.Close()
				} else {
					acc.Close()
				}
			case "handler_stop":
				h.Stop()
			}
		}
		if sc.BlockCb { // the cause fires while the handler loop IS inside the callback
			select {
			case <-entered:
			case <-time.After(time.Second):
			}
			time.Sleep(2 * time.Millisecond)
		}
		if sc.Cause2 != "" {
			defer func() {}()
			go func() {
				time.Sleep(time.Duration(sc.GapMs) * time.Millisecond)
				fire(sc.Cause2)
			}()
		}
		// the cause
		switch sc.Cause {
		case "peer_close":
			conn.in <- inEvent{err: io.EOF, delay: time.Duration(sc.ErrDelayMs) * time.Millisecond}
		case "peer_reset":
			conn.in <- inEvent{err: errors.New("read tcp: connection reset by peer"), delay: time.Duration(sc.ErrDelayMs) * time.Millisecond}
		case "read_timeout": // a read fails with a timeout (the application's read deadline on the connection has passed) and keeps failing
			conn.in <- inEvent{err: readTimeoutErr{}, sticky: true}
		case "write_error", "peer_stops_reading":
			if sc.Cause == "write_error" {
				conn.setMode("error")
			} else {
				conn.setMode("block")
			}
			sendersWg.Add(1)
			go func() { defer sendersWg.Done(); _ = s.Send(fixgen.NewMarketDataRequest().SetMDReqID("w")) }()
		case "local_close":
			if ini != nil {
				ini.Close()
			} else {
				acc.Close()
			}
		case "handler_stop":
			h.Stop()
		case "timer_disconnect":
			// nothing: the peer stays silent
		}
		// bounded settling time: the write deadline plus a margin; two inbound timeouts for the silent peer
		if sc.Cause == "timer_disconnect" {
			time.Sleep(6500 * time.Millisecond) // (TestRequest at 2 s, disconnect at 4 s, the timer loops look at their context once per timeout: up to 2.2 s more; margin for a loaded machine)
		} else if sc.Phase == "logged" || sc.Phase == "logout" || sc.Phase == "relogged" {
			// the timer loops look at their context once per timeout (1 s + 1 s tolerance + poll)
			time.Sleep(2600 * time.Millisecond)
		} else {
			time.Sleep(450 * time.Millisecond)
		}
		// the socket and the notification are looked at BEFORE the later send call is made: a connection that is only wound down
		// because somebody tries to send afterwards has not ended by itself
		sockClosedBefore := conn.IsClosed()
		mu.Lock()
		notifiedBefore := notified
		mu.Unlock()
		sendersDone := make(chan struct{})
		go func() { sendersWg.Wait(); close(sendersDone) }()
		postSend := make(chan struct{})
		go func() {
			if sc.ErrStop { // the later call is a Logout: its failed send is reported to the error callback, which stops the session
				_ = s.Logout()
			}
			_ = s.Send(fixgen.NewMarketDataRequest().SetMDReqID("after"))
			close(postSend)
		}()
		postWait := 400 * time.Millisecond
		if sc.ErrStop {
			postWait = 2 * time.Second
		}
		select {
		case <-postSend:
		case <-time.After(postWait):
		}
		select {
		case <-postSend:
			o.SendReturned = true
		default:
		}
		select {
		case <-sendersDone:
			o.SendersDone = true
		case <-time.After(400 * time.Millisecond):
		}
		o.SockClosed = sockClosedBefore
		if sc.Role == "initiator" {
			select {
			case <-serveDone:
				o.ServeReturned = true
			default:
			}
		} else {
			o.ServeReturned = true // per-connection serve is observed through the goroutine profile
		}
		o.Notified = notifiedBefore
		o.Leaked = libraryGoroutines(sc.Role == "acceptor" && sc.Cause != "local_close", baseGid)
		if o.Leaked == nil {
			o.Leaked = []string{}
		}
		emit(o)
		// harness cleanup
		if acc != nil {
			acc.Close()
			lst.Close()
		}
		conn.Close()
		quiesce()
	}()
}


// heldListener: Accept hands out its one connection only when released (whether or not the listener has been closed meanwhile:
// the connection was established before); further Accept calls fail once the listener is closed.
type heldListener struct {
	conn    net.Conn
	release chan struct{}
	closed  chan struct{}
	once    sync.Once
	mu      sync.Mutex
	given   bool
}

func (l *heldListener) Accept() (net.Conn, error) {
	l.mu.Lock()
	first := !l.given
	l.given = true
	l.mu.Unlock()
	if first {
		<-l.release
		return l.conn, nil
	}
	<-l.closed
	return nil, errors.New("listener closed")
}
func (l *heldListener) Close() error   { l.once.Do(func() { close(l.closed) }); return nil }
func (l *heldListener) Addr() net.Addr { return &net.TCPAddr{} }

// runAcceptRace: the earliest point of a connection's life.  The local side closes the acceptor while a connection is being
// accepted (established, not yet served): the socket is closed all the same, the serving call returns, nothing is left behind.
func runAcceptRace(sc *LScenario, emit func(*LifeObs)) {
	baseGid := maxGoroutineID()
	o := &LifeObs{K: "life", ID: sc.ID, Scenario: *sc, Leaked: []string{}, ReachedPhase: true, Notified: true, SendersDone: true, SendReturned: true}
	conn := NewLifeConn()
	lst := &heldListener{conn: conn, release: make(chan struct{}), closed: make(chan struct{})}
	acc := simplefixgo.NewAcceptor(lst, simplefixgo.NewAcceptorHandlerFactory(fixgen.FieldMsgType, sc.Buf), 150*time.Millisecond,
		func(simplefixgo.AcceptorHandler) {})
	serveDone := make(chan struct{})
	go func() { _ = acc.ListenAndServe(); close(serveDone) }()
	time.Sleep(5 * time.Millisecond) // Accept is waiting for its connection
	if sc.GapMs < 0 {                // the connection arrives first, the close right behind it
		close(lst.release)
		time.Sleep(time.Duration(-sc.GapMs) * time.Millisecond)
		acc.Close()
	} else {
		acc.Close()
		time.Sleep(time.Duration(sc.GapMs) * time.Millisecond)
		close(lst.release)
	}
	for i := 0; i < 100 && !conn.IsClosed(); i++ {
		time.Sleep(5 * time.Millisecond)
	}
	o.SockClosed = conn.IsClosed()
	select {
	case <-serveDone:
		o.ServeReturned = true
	case <-time.After(500 * time.Millisecond):
	}
	time.Sleep(50 * time.Millisecond)
	o.Leaked = libraryGoroutines(false, baseGid)
	if o.Leaked == nil {
		o.Leaked = []string{}
	}
	_ = conn.Close()
	emit(o)
}


// runCallbackStop: the application turns a client away inside the acceptor's new-client callback (handler.Stop(), or closing the
// acceptor from there), i.e. BEFORE the handler's Run has started, while the peer has already hung up (cause2 = peer_close /
// peer_reset) or is still connected (cause2 = ""): everything still winds down.
func runCallbackStop(sc *LScenario, emit func(*LifeObs)) {
	baseGid := maxGoroutineID()
	o := &LifeObs{K: "life", ID: sc.ID, Scenario: *sc, Leaked: []string{}, ReachedPhase: true, Notified: true, SendersDone: true, SendReturned: true}
	conn := NewLifeConn()
	switch sc.Cause2 {
	case "peer_close":
		conn.in <- inEvent{err: io.EOF}
	case "peer_reset":
		conn.in <- inEvent{err: errors.New("read: connection reset by peer")}
	}
	lst := &ScriptListener{conns: make(chan net.Conn, 1), closed: make(chan struct{})}
	var acc *simplefixgo.Acceptor
	called := make(chan struct{}, 1)
	acc = simplefixgo.NewAcceptor(lst, simplefixgo.NewAcceptorHandlerFactory(fixgen.FieldMsgType, sc.Buf), 150*time.Millisecond,
		func(ah simplefixgo.AcceptorHandler) {
			time.Sleep(time.Duration(sc.GapMs) * time.Millisecond) // the reader has met the hang-up by now
			if sc.Cause == "local_close" {
				acc.Close()
			} else {
				ah.Stop()
			}
			called <- struct{}{}
		})
	serveDone := make(chan struct{})
	go func() { _ = acc.ListenAndServe(); close(serveDone) }()
	lst.conns <- conn
	select {
	case <-called:
	case <-time.After(2 * time.Second):
		o.ReachedPhase = false
	}
	for i := 0; i < 100 && !conn.IsClosed(); i++ {
		time.Sleep(5 * time.Millisecond)
	}
	o.SockClosed = conn.IsClosed()
	acc.Close()
	_ = lst.Close()
	select {
	case <-serveDone:
		o.ServeReturned = true
	case <-time.After(500 * time.Millisecond):
	}
	time.Sleep(80 * time.Millisecond)
	o.Leaked = libraryGoroutines(false, baseGid)
	if o.Leaked == nil {
		o.Leaked = []string{}
	}
	_ = conn.Close()
	emit(o)
}
