package wirerig

import (
	"bufio"
	"encoding/json"
	"os"
	"strconv"
	"testing"
)

func shardOf() (int, int) {
	shard, of := 0, 1
	if s := os.Getenv("VERIF_SHARD"); s != "" {
		for i := 0; i < len(s); i++ {
			if s[i] == '/' {
				shard, _ = strconv.Atoi(s[:i])
				of, _ = strconv.Atoi(s[i+1:])
			}
		}
	}
	return shard, of
}

func eachScenario(t *testing.T, f func(line []byte, enc *json.Encoder)) {
	scn, out := os.Getenv("VERIF_SCN"), os.Getenv("VERIF_TRACE")
	if scn == "" || out == "" {
		t.Skip("VERIF_SCN / VERIF_TRACE not set")
	}
	shard, of := shardOf()
	in, err := os.Open(scn)
	if err != nil {
		t.Fatal(err)
	}
	defer in.Close()
	fo, err := os.Create(out)
	if err != nil {
		t.Fatal(err)
	}
	defer fo.Close()
	w := bufio.NewWriterSize(fo, 1<<20)
	defer w.Flush()
	enc := json.NewEncoder(w)
	sc := bufio.NewScanner(in)
	sc.Buffer(make([]byte, 1<<20), 1<<26)
	n := 0
	for sc.Scan() {
		if len(sc.Bytes()) == 0 {
			continue
		}
		n++
		if (n-1)%of != shard {
			continue
		}
		f(append([]byte{}, sc.Bytes()...), enc)
	}
}

// TestFraming replays C04 scenarios on the real Acceptor / Initiator / Conn.
func TestFraming(t *testing.T) {
	eachScenario(t, func(line []byte, enc *json.Encoder) {
		var s FScenario
		if err := json.Unmarshal(line, &s); err != nil {
			t.Fatalf("DRIVER-ERROR bad scenario: %v", err)
		}
		obs, failure := RunFraming(&s)
		if failure != "" {
			t.Fatalf("DRIVER-ERROR scenario %s: %s", s.ID, failure)
		}
		for _, o := range obs {
			if err := enc.Encode(o); err != nil {
				t.Fatal(err)
			}
		}
	})
}

// TestLifecycle replays C13 scenarios starting at $VERIF_START (0-based line index of this shard).
// When a scenario leaves goroutines blocked the process exits with status 3 after writing the
// record; the orchestrator restarts it behind that scenario.
func TestLifecycle(t *testing.T) {
	scn, out := os.Getenv("VERIF_SCN"), os.Getenv("VERIF_TRACE")
	if scn == "" || out == "" {
		t.Skip("VERIF_SCN / VERIF_TRACE not set")
	}
	start, _ := strconv.Atoi(os.Getenv("VERIF_START"))
	shard, of := shardOf()
	in, err := os.Open(scn)
	if err != nil {
		t.Fatal(err)
	}
	defer in.Close()
	fo, err := os.OpenFile(out, os.O_APPEND|os.O_CREATE|os.O_WRONLY, 0o644)
	if err != nil {
		t.Fatal(err)
	}
	defer fo.Close()
	sc := bufio.NewScanner(in)
	sc.Buffer(make([]byte, 1<<20), 1<<26)
	n, mine := 0, 0
	for sc.Scan() {
		if len(sc.Bytes()) == 0 {
			continue
		}
		n++
		if (n-1)%of != shard {
			continue
		}
		mine++
		if mine-1 < start {
			continue
		}
		var s LScenario
		if err := json.Unmarshal(sc.Bytes(), &s); err != nil {
			t.Fatalf("DRIVER-ERROR bad scenario: %v", err)
		}
		RunLifecycle(t, &s, func(o *LifeObs) {
			b, _ := json.Marshal(o)
			fo.Write(append(b, '\n'))
			fo.Sync()
		})
	}
}
