------------------------------- MODULE Access -------------------------------
(***************************************************************************)
(* Synchronisation discipline of the session layer (C20).                  *)
(*                                                                         *)
(* TLA+ cannot decide the Go memory model.  What this module decides is    *)
(* WHICH pairs of accesses to shared locations can be concurrent and       *)
(* conflicting, and whether the lockset discipline covers each of them:    *)
(* a table of accesses (goroutine kind, code site, location, read/write,   *)
(* locks held, atomic or not), transcribed from the code, is checked for   *)
(* "every concurrent conflicting pair has a common lock or is atomic on    *)
(* both sides", and every such pair is printed together with the harness   *)
(* scenario that schedules both sides for the same virtual instant on a    *)
(* -race build (harness/race).  The race detector, not TLC, gives the      *)
(* verdict.                                                                *)
(***************************************************************************)
EXTENDS Integers, Sequences, FiniteSets, TLC, Json

CONSTANTS StateReadLocks,      \* {"stateMu/r"} when state reads go through a getter that takes the read lock, {} for plain reads
          StateWriteLocks,     \* {"stateMu"} when every assignment to the state holds the lock exclusively, {"stateMu/r"} when one
                               \* holds only the read lock, {} when one holds nothing
          SettingsWriteLocks,  \* {"Session.mu"} when the Logon handler swaps the settings under the send lock
          CounterReadAtomic    \* TRUE when the counter is read with an atomic load

\* goroutine kinds; "multi" kinds may run several instances at once
Procs == {"dispatch", "timerIn", "timerOut", "sender", "app", "connReader", "connWriter"}
Multi == {"sender", "app"}

A(proc, site, loc, kind, locks, atomic, scn) ==
  [proc |-> proc, site |-> site, loc |-> loc, kind |-> kind, locks |-> locks, atomic |-> atomic, scn |-> scn]

Accesses == {
  \* ---- Session.state ----
  A("dispatch", "changeState (Logon/Logout handlers, WTR->SL)", "Session.state", "w", StateWriteLocks, FALSE, "timers_vs_inbound"),
  A("dispatch", "WTR->SL when the TestRequest is answered by any inbound message", "Session.state", "w", StateWriteLocks, FALSE, "testrequest_answer_vs_queries"),
  A("timerIn",  "changeState (WaitingTestReqAnswer, Disconnect)", "Session.state", "w", StateWriteLocks, FALSE, "timers_vs_inbound"),
  A("app",      "changeState (Logout, Stop)", "Session.state", "w", StateWriteLocks, FALSE, "logout_stop_vs_all"),
  A("app",      "IsLogged", "Session.state", "r", {"stateMu/r"}, FALSE, "senders_vs_timers"),
  A("app",      "IsLogged while a TestRequest is outstanding / being answered", "Session.state", "r", {"stateMu/r"}, FALSE, "testrequest_answer_vs_queries"),
  A("dispatch", "state reads in the inbound handlers", "Session.state", "r", StateReadLocks, FALSE, "timers_vs_inbound"),
  A("timerIn",  "state read in the inbound timer loop", "Session.state", "r", StateReadLocks, FALSE, "timers_vs_inbound"),
  \* ---- timers started by the last logon ----
  A("dispatch", "start / changeState: stopTimers", "Session.stopTimers", "w", {"stateMu"}, FALSE, "logout_stop_vs_all"),
  A("app",      "changeState: stopTimers", "Session.stopTimers", "w", {"stateMu"}, FALSE, "logout_stop_vs_all"),
  A("app",      "changeState: stopTimers (Stop / Logout while the logon callback runs)", "Session.stopTimers", "w", {"stateMu"}, FALSE, "calls_during_slow_logon"),
  A("dispatch", "start: previous timers read and replaced", "Session.stopTimers", "w", {"stateMu"}, FALSE, "calls_during_slow_logon"),
  A("timerIn",  "changeState(Disconnect): no access", "Session.stopTimers", "r", {"stateMu"}, FALSE, "silent_peer_disconnect"),
  \* ---- logon settings (identifiers stamped on every outbound message) ----
  A("dispatch", "Logon handler replaces LogonSettings", "Session.LogonSettings", "w", SettingsWriteLocks, FALSE, "logon_vs_senders"),
  A("sender",   "send: reads identifiers", "Session.LogonSettings", "r", {"Session.mu"}, FALSE, "logon_vs_senders"),
  A("timerOut", "send: reads identifiers", "Session.LogonSettings", "r", {"Session.mu"}, FALSE, "senders_vs_timers"),
  A("timerIn",  "send: reads identifiers", "Session.LogonSettings", "r", {"Session.mu"}, FALSE, "senders_vs_timers"),
  \* ---- bundled memory store ----
  A("sender",   "GetNextSeqNum", "Storage.counterOutgoing", "w", {}, TRUE, "senders_vs_inbound_resend"),
  A("timerOut", "GetNextSeqNum", "Storage.counterOutgoing", "w", {}, TRUE, "senders_vs_timers"),
  A("timerIn",  "GetNextSeqNum", "Storage.counterOutgoing", "w", {}, TRUE, "senders_vs_timers"),
  A("dispatch", "GetNextSeqNum (replies)", "Storage.counterOutgoing", "w", {}, TRUE, "senders_vs_inbound_resend"),
  A("dispatch", "Messages / GetCurrSeqNum (resend)", "Storage.counterOutgoing", "r", {}, CounterReadAtomic, "senders_vs_inbound_resend"),
  A("sender",   "Save", "Storage.messages", "w", {"Storage.mu"}, FALSE, "senders_vs_inbound_resend"),
  A("dispatch", "Messages", "Storage.messages", "r", {"Storage.mu"}, FALSE, "senders_vs_inbound_resend"),
  A("timerOut", "Save", "Storage.messages", "w", {"Storage.mu"}, FALSE, "senders_vs_timers"),
  \* ---- stored message objects (the store keeps pointers; a retransmission serializes them again) ----
  A("timerOut", "send: stamps the header of a message it built", "stored message object", "w", {"Session.mu", "own object"}, FALSE, "resend_of_timer_messages"),
  A("dispatch", "SendBatch: ToBytes of stored messages", "stored message object", "r", {"DefaultHandler.mu", "own object"}, FALSE, "resend_of_timer_messages"),
  \* ---- timers ----
  A("dispatch", "Timer.Refresh (inbound)", "Timer.lastUpdate(in)", "w", {"Timer.mu"}, FALSE, "timers_vs_inbound"),
  A("timerIn",  "Timer.TakeTimeout", "Timer.lastUpdate(in)", "r", {"Timer.mu"}, FALSE, "timers_vs_inbound"),
  A("sender",   "Timer.Refresh (outbound handler)", "Timer.lastUpdate(out)", "w", {"Timer.mu"}, FALSE, "senders_vs_timers"),
  A("timerOut", "Timer.TakeTimeout", "Timer.lastUpdate(out)", "r", {"Timer.mu"}, FALSE, "senders_vs_timers"),
  \* ---- handler and event pools ----
  A("app",      "HandleIncoming / HandleOutgoing", "HandlerPool.handlers", "w", {"HandlerPool.mu"}, FALSE, "registration_vs_dispatch"),
  A("dispatch", "Range (incoming)", "HandlerPool.handlers", "r", {"HandlerPool.mu"}, FALSE, "registration_vs_dispatch"),
  A("sender",   "Range (outgoing)", "HandlerPool.handlers", "r", {"HandlerPool.mu"}, FALSE, "registration_vs_dispatch"),
  A("dispatch", "start: HandleIncoming / HandleOutgoing", "HandlerPool.handlers", "w", {"HandlerPool.mu"}, FALSE, "logon_vs_senders"),
  A("app",      "OnChangeState / Stop: Clean", "EventHandlerPool.pool", "w", {"EventHandlerPool.mu"}, FALSE, "registration_vs_dispatch"),
  A("dispatch", "Trigger", "EventHandlerPool.pool", "r", {"EventHandlerPool.mu"}, FALSE, "registration_vs_dispatch"),
  A("timerIn",  "Trigger (Disconnect)", "EventHandlerPool.pool", "r", {"EventHandlerPool.mu"}, FALSE, "silent_peer_disconnect"),
  \* ---- the connection: the reader and the writer goroutine share nothing but the context and the net.Conn (whose methods are safe) ----
  A("connReader", "runReader: cancels the connection's context on a read error", "Conn.ctx", "w", {"context (internally synchronised)"}, FALSE, "connection_dies_under_load"),
  A("connWriter", "Write: checks the context, cancels it on a write error", "Conn.ctx", "w", {"context (internally synchronised)"}, FALSE, "connection_dies_under_load"),
  \* (the callbacks of an event are called from a copy of the list taken under the lock: Stop may empty and refill the pool meanwhile)
  A("app",      "Stop: Clean, then OnChangeState(EventLogout)", "EventHandlerPool.pool", "w", {"EventHandlerPool.mu"}, FALSE, "stop_vs_logout_answer"),
  A("dispatch", "Trigger(EventLogout) for the peer's Logout crossing ours", "EventHandlerPool.pool", "r", {"EventHandlerPool.mu"}, FALSE, "stop_vs_logout_answer")
}

Concurrent(a, b) == a.proc # b.proc \/ a.proc \in Multi
Conflict(a, b) == a.loc = b.loc /\ (a.kind = "w" \/ b.kind = "w") /\ Concurrent(a, b)
\* "L/r" is lock L held in shared (read) mode: it excludes holders of L, not other holders of L/r
IsShared(l) == Len(l) > 2 /\ SubSeq(l, Len(l) - 1, Len(l)) = "/r"
SharedOf(l) == l \o "/r"
Protected(a, b) ==
  \/ \E l \in a.locks : ~IsShared(l) /\ (l \in b.locks \/ SharedOf(l) \in b.locks)
  \/ \E l \in b.locks : ~IsShared(l) /\ (l \in a.locks \/ SharedOf(l) \in a.locks)
  \/ (a.atomic /\ b.atomic)

ConflictingPairs == {p \in Accesses \X Accesses : Conflict(p[1], p[2])}
Unprotected == {p \in ConflictingPairs : ~Protected(p[1], p[2])}

VARIABLE done
Init == done = FALSE
Next == ~done /\ done' = TRUE
Spec == Init /\ [][Next]_done

\* the lockset discipline: no concurrent conflicting pair without a common lock / atomics on both sides
Lockset == Unprotected = {}
Emit == \A p \in ConflictingPairs :
                     PrintT("PAIR " \o ToJson([loc |-> p[1].loc, a |-> p[1].proc \o ": " \o p[1].site, b |-> p[2].proc \o ": " \o p[2].site,
                                               protected |-> Protected(p[1], p[2]), scenarios |-> {p[1].scn, p[2].scn}]))
=============================================================================
