---------------------------- MODULE AccessTrace ----------------------------
(* Validation of race-detector observations (harness/race on a -race build) for C20: a scenario   *)
(* of Access.tla is accepted when the detector reported no data race whose stacks lie in the     *)
(* library.                                                                                       *)
EXTENDS Integers, Sequences, FiniteSets, TLC, Json

CONSTANT TraceFile
Trace == ndJsonDeserialize(TraceFile)
VARIABLE l

Check(r) ==
  /\ (r.completed \/ PrintT("SPECERR " \o ToJson(<<r.id, "scenario did not complete">>)))
  /\ \A j \in 1..Len(r.reports) :
       PrintT("REJECT " \o ToJson(<<"C20", r.id, "data race reported by the Go race detector inside the library",
                                    [access1 |-> r.reports[j].a, access2 |-> r.reports[j].b, location |-> r.reports[j].loc]>>))

Init == l = 1
Next == l <= Len(Trace) /\ (Check(Trace[l]) \in BOOLEAN) /\ l' = l + 1
Spec == Init /\ [][Next]_l
TraceAccepted == TLCGet("stats").diameter = Len(Trace) + 1
=============================================================================
