------------------------------ MODULE Decoder ------------------------------
(***************************************************************************)
(* The decoder AS IMPLEMENTED (fix/utils.go ValueByTag, fix/encoding       *)
(* scanKeyValue, the group branch of state.unmarshal, splitGroup,          *)
(* validateRaw), transcribed step for step at the level of bytes.Index and *)
(* slice expressions.  This is the one place where a self-contained        *)
(* function with rich case analysis is transcribed into TLA+: TLC then     *)
(* checks on every short byte string                                       *)
(*   - NoOOB: every slice expression the code evaluates is within bounds   *)
(*     (so no input can make it panic) and every loop terminates,          *)
(*   - where the implemented algorithm and the reference semantics of      *)
(*     FixWire (field boundaries) differ.                                  *)
(* Every result is a record with a field `oob` that is TRUE as soon as a   *)
(* slice obligation 0 <= lo <= hi <= Len(s) is violated.                   *)
(***************************************************************************)
EXTENDS FixWire

\* bytes.Index(s, sep): 0-based index of the first occurrence, -1 if none ("" matches at 0)
IndexOf(s, sep) ==
  IF sep = <<>> THEN 0
  ELSE LET C == {i \in 1..(Len(s) - Len(sep) + 1) : SubSeq(s, i, i + Len(sep) - 1) = sep}
       IN IF C = {} THEN -1 ELSE (CHOOSE i \in C : \A j \in C : i <= j) - 1
HasPrefix(s, p) == Len(s) >= Len(p) /\ SubSeq(s, 1, Len(p)) = p
\* s[lo:hi] with Go's 0-based half-open bounds; Ok says whether the bounds are legal
SliceOk(s, lo, hi) == 0 <= lo /\ lo <= hi /\ hi <= Len(s)
Slice(s, lo, hi) == SubSeq(s, lo + 1, hi)

\* ---- fix.ValueByTag(msg, tag) ----
ValueByTag(msg, tag) ==
  LET start0 == IndexOf(msg, <<SOH>> \o tag \o <<EQ>>)
  IN IF Len(msg) <= Len(tag) THEN [found |-> FALSE, val |-> <<>>, oob |-> FALSE]
     ELSE IF start0 = -1 /\ ~HasPrefix(msg, tag \o <<EQ>>) THEN [found |-> FALSE, val |-> <<>>, oob |-> FALSE]
     ELSE LET start == start0 + Len(tag) + 2
          IN IF ~SliceOk(msg, start, Len(msg)) THEN [found |-> TRUE, val |-> <<>>, oob |-> TRUE]
             ELSE LET e == IndexOf(Slice(msg, start, Len(msg)), <<SOH>>)
                      end == IF e = -1 THEN Len(msg) ELSE e + start
                  IN [found |-> TRUE, val |-> Slice(msg, start, end), oob |-> ~SliceOk(msg, start, end)]

\* ---- state.scanKeyValue(data, key): the raw value bytes of the field, or not found ----
ScanKeyValue(data, key) ==
  LET q == key \o <<EQ>>
      i == IndexOf(data, <<SOH>> \o q)
      keyIndex == IF HasPrefix(data, q) THEN 0 ELSE i + 1
  IN IF ~HasPrefix(data, q) /\ i = -1 THEN [found |-> FALSE, val |-> <<>>, oob |-> FALSE]
     ELSE LET from == keyIndex + Len(q)
          IN IF ~SliceOk(data, from, Len(data)) THEN [found |-> TRUE, val |-> <<>>, oob |-> TRUE]
             ELSE LET d == Slice(data, from, Len(data))
                      e == IndexOf(d, <<SOH>>)
                      end == IF e = -1 THEN Len(d) ELSE e
                  IN [found |-> TRUE, val |-> Slice(d, 0, end), oob |-> FALSE]

\* strconv.Atoi on the bytes (decimal, optional sign); TLC integers: at most 9 digits
AtoiOk(v) == LooseNum(v)
Atoi(v) == LooseVal(v)

\* ---- splitGroup(line, firstTag): pieces, with a fuel bound that witnesses termination ----
RECURSIVE SplitGroup(_, _, _)
SplitGroup(line, firstTag, fuel) ==
  IF fuel = 0 THEN [items |-> <<>>, oob |-> TRUE]                 \* non-termination would show up here
  ELSE IF ~SliceOk(line, 1, Len(line)) THEN [items |-> <<>>, oob |-> TRUE]       \* line[1:] on an empty line
  ELSE LET next == IndexOf(Slice(line, 1, Len(line)), firstTag)
       IN IF next = -1 THEN [items |-> <<line>>, oob |-> FALSE]
          ELSE LET rest == SplitGroup(Slice(line, next + 1, Len(line)), firstTag, fuel - 1)
               IN [items |-> <<Slice(line, 0, next + 1)>> \o rest.items, oob |-> rest.oob]

\* ---- the group branch of state.unmarshal: how the entries are cut out (entry parsing itself is
\* ---- ScanKeyValue on each piece).  result: "absent" | "error" | "ok" with the pieces ----
GroupSplit(data, noTag) ==
  LET c == ScanKeyValue(data, noTag)
      p == noTag \o <<EQ>>
      i == IndexOf(data, <<SOH>> \o p)
      startNoTag == IF HasPrefix(data, p) THEN 0 ELSE i + 1
  IN IF c.oob THEN [res |-> "error", items |-> <<>>, oob |-> TRUE]
     ELSE IF c.found /\ ~AtoiOk(c.val) THEN [res |-> "error", items |-> <<>>, oob |-> FALSE]
     ELSE IF ~HasPrefix(data, p) /\ i = -1 THEN [res |-> "absent", items |-> <<>>, oob |-> FALSE]
     ELSE IF ~SliceOk(data, startNoTag, Len(data)) THEN [res |-> "error", items |-> <<>>, oob |-> TRUE]
     ELSE LET sf == IndexOf(Slice(data, startNoTag, Len(data)), <<SOH>>)
          IN IF sf = -1 THEN [res |-> "error", items |-> <<>>, oob |-> FALSE]
             ELSE LET arr == Slice(data, startNoTag + sf, Len(data))
                      ef == IndexOf(arr, <<EQ>>)
                  IN IF ef = -1 THEN [res |-> "error", items |-> <<>>, oob |-> FALSE]
                     ELSE LET firstTag == Slice(arr, 0, ef + 1)
                              sp == SplitGroup(arr, firstTag, Len(arr) + 1)
                              cnt == IF c.found THEN Atoi(c.val) ELSE 0
                          IN IF sp.oob THEN [res |-> "error", items |-> <<>>, oob |-> TRUE]
                             ELSE IF Len(sp.items) # cnt THEN [res |-> "error", items |-> sp.items, oob |-> FALSE]
                             ELSE [res |-> "ok", items |-> sp.items, oob |-> FALSE]

\* ---- validateRaw(d) for framing tags T: "ok" | "error" ----
ValidateRaw(d, T) ==
  LET bs == ScanKeyValue(d, T.bs)
      bl == ScanKeyValue(d, T.bl)
      cs == ScanKeyValue(d, T.cs)
      fieldLen(tag, r) == IF r.found /\ r.val # <<>> THEN Len(tag) + 1 + Len(r.val) ELSE 0   \* KeyValue.ToBytes: nil when null/empty
  IN IF bs.oob \/ bl.oob \/ cs.oob THEN [res |-> "error", oob |-> TRUE]
     ELSE IF ~bl.found \/ bl.val = <<>> \/ ~AtoiOk(bl.val) THEN [res |-> "error", oob |-> FALSE]
     ELSE LET offset == fieldLen(T.bs, bs) + 1 + fieldLen(T.bl, bl) + 1
              length == (Len(d) - offset) - (fieldLen(T.cs, cs) + 1)
              fieldOf(tag, r) == IF r.found /\ r.val # <<>> THEN tag \o <<EQ>> \o r.val ELSE <<>>
              head == fieldOf(T.bs, bs) \o <<SOH>> \o fieldOf(T.bl, bl) \o <<SOH>>
              tail == <<SOH>> \o fieldOf(T.cs, cs) \o <<SOH>>
              HasSuffix(s, x) == Len(s) >= Len(x) /\ SubSeq(s, Len(s) - Len(x) + 1, Len(s)) = x
          IN IF length # Atoi(bl.val) THEN [res |-> "error", oob |-> FALSE]
             \* (fix "positional framing"): the framing fields are the first two and the last field
             ELSE IF ~HasPrefix(d, head) \/ ~HasSuffix(d, tail) THEN [res |-> "error", oob |-> FALSE]
             ELSE IF ~SliceOk(d, 0, offset + length - 1) THEN [res |-> "error", oob |-> TRUE]
             ELSE LET pre == Slice(d, 0, offset + length - 1)
                      sum == (SumTo(pre, Len(pre)) + 1) % 256
                  IN IF cs.found /\ cs.val = Pad3(sum) THEN [res |-> "ok", oob |-> FALSE]
                     ELSE [res |-> "error", oob |-> FALSE]
=============================================================================
