------------------------------ MODULE Dispatch ------------------------------
(***************************************************************************)
(* Handler dispatch and the store-before-send rule (C19): DefaultHandler   *)
(* .send / .serve, HandlerPool.Range, Session.setStorageCallbacks.         *)
(*                                                                         *)
(* A handler is [id, dir ("out" | "in"), ty ("ALL" or a MsgType), accept,  *)
(* when ("pre": registered before Session.Run, "post": after logon)].      *)
(* Registration order = all "pre" handlers in list order, then the "post"  *)
(* ones.  The session's own save handler is registered at construction,    *)
(* i.e. before every application handler.                                  *)
(***************************************************************************)
EXTENDS Integers, Sequences, FiniteSets, TLC

RegOrder(hs) == SelectSeq(hs, LAMBDA h : h.when = "pre") \o SelectSeq(hs, LAMBDA h : h.when # "pre")

Handlers(hs, dir, ty) == SelectSeq(RegOrder(hs), LAMBDA h : h.dir = dir /\ h.ty = ty)

\* the calls a list produces: up to and including the first handler that refuses
RECURSIVE UpToRefusal(_)
UpToRefusal(list) ==
  IF list = <<>> THEN <<>>
  ELSE IF ~Head(list).accept THEN <<Head(list)>> ELSE <<Head(list)>> \o UpToRefusal(Tail(list))
AllAccept(list) == \A j \in 1..Len(list) : list[j].accept

\* outbound message of type ty; saveOk: the store accepted it
OutCalls(hs, ty, saveOk) ==
  IF ~saveOk THEN <<>>
  ELSE LET a == Handlers(hs, "out", "ALL")
           t == Handlers(hs, "out", ty)
       IN IF AllAccept(a) THEN a \o UpToRefusal(t) ELSE UpToRefusal(a)
Transmitted(hs, ty, saveOk) ==
  saveOk /\ AllAccept(Handlers(hs, "out", "ALL")) /\ AllAccept(Handlers(hs, "out", ty))

\* inbound message of type ty: all-types handlers, then the handlers of its own type; a
\* refusal ends its own list only
InCalls(hs, ty) == UpToRefusal(Handlers(hs, "in", "ALL")) \o UpToRefusal(Handlers(hs, "in", ty))

Ids(list) == [j \in 1..Len(list) |-> list[j].id]
=============================================================================
