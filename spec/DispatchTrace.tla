--------------------------- MODULE DispatchTrace ---------------------------
(* Validation of recorded handler-call / save / wire logs (harness/sess/dispatch.go) against Dispatch. *)
EXTENDS Dispatch, Json, SequencesExt

CONSTANT TraceFile
Trace == ndJsonDeserialize(TraceFile)

\* hs: the handlers registered so far; allhs: all handlers of the scenario (those with when = "late" are registered in the middle
\* of the traffic, after messages of their type have already passed: record "dreg")
VARIABLES l, hs, allhs, failAt, nsave, skip
vars == <<l, hs, allhs, failAt, nsave, skip>>

Rej(r, what, detail) == PrintT("REJECT " \o ToJson(<<"C19", r.id \o "#" \o ToString(r.i), what, detail>>)) /\ FALSE

CallIds(r, dir) == LET c == SelectSeq(r.calls, LAMBDA x : x.dir = dir) IN [j \in 1..Len(c) |-> c[j].h]

\* type of the single outbound message a step produces ("" = none)
\* (Session.Stop sends a Logout through the same path as any other message of the session; the peer's Logout is answered by a Logout; its second Logon by a Logon on the accepting side only - the role is not part of
\*  the records, so for that step a message is expected exactly when one was offered to the handlers or transmitted)
OutTypeOf(r) == LET a == r.a IN
                IF a.a = "send" THEN "V" ELSE IF a.a = "stop" THEN "5" ELSE IF a.a = "recv" /\ a.ty = "1" THEN "0" ELSE IF a.a = "recv" /\ a.ty = "5" THEN "5"
                ELSE IF a.a = "recv" /\ a.ty = "A" /\ (r.wire # <<>> \/ \E j \in 1..Len(r.calls) : r.calls[j].dir = "out") THEN "A" ELSE ""

\* a served ResendRequest: the stored messages pass the outgoing handlers again (no new numbers): every message on
\* the wire was (re-)saved under its own number, and the numbers are ascending from 1
ResendOk(r) ==
  /\ ((\A j \in 1..Len(r.wire) : \E k \in 1..Len(r.saves) : r.saves[k].seq = r.wire[j].seq)
        \/ Rej(r, "a retransmitted message was saved under a number that is not its own",
               [wire |-> [j \in 1..Len(r.wire) |-> r.wire[j].seq], saves |-> [k \in 1..Len(r.saves) |-> r.saves[k].seq]]))
  /\ ((\A j \in 1..(Len(r.wire) - 1) : r.wire[j].seq < r.wire[j + 1].seq)
        \/ Rej(r, "retransmitted messages are not in ascending order", [wire |-> [j \in 1..Len(r.wire) |-> r.wire[j].seq]]))

\* several messages handed over in one call: whatever the call does with the rest of the batch after a refusal, no message goes out
\* unsaved, and the call reports it when a save failed or a handler refused
BatchOk(r) ==
  /\ ((\A j \in 1..Len(r.wire) : \E k \in 1..Len(r.saves) : r.saves[k].ok /\ r.saves[k].seq = r.wire[j].seq /\ r.saves[k].bytes = r.wire[j].bytes)
        \/ Rej(r, "message on the wire was not saved first under its own sequence number", [wire |-> Len(r.wire), saves |-> Len(r.saves)]))
  /\ ((r.err = ((\E k \in 1..Len(r.saves) : ~r.saves[k].ok) \/ ~Transmitted(hs, "V", TRUE)))
        \/ Rej(r, "send call result does not report the refusal / save failure", [err |-> r.err, transmitted |-> Len(r.wire)]))

StepOk(r) ==
  IF r.a.a = "batch" THEN BatchOk(r) ELSE
  IF r.a.a = "recv" /\ r.a.ty = "2" THEN ResendOk(r) ELSE
  LET ot == OutTypeOf(r)
      saveOk == ot = "" \/ (nsave + 1 # failAt)
      expOut == IF ot = "" THEN <<>> ELSE Ids(OutCalls(hs, ot, saveOk))
      expIn == IF r.a.a = "recv" THEN Ids(InCalls(hs, IF r.a.ty \in {"1", "0", "d", "v", "5", "A"} THEN r.a.ty ELSE "D")) ELSE <<>>
      tx == ot # "" /\ Transmitted(hs, ot, saveOk)
      outCalls == SelectSeq(r.calls, LAMBDA x : x.dir = "out")
      IsMutator(id) == \E j \in 1..Len(hs) : hs[j].id = id /\ hs[j].mutate
      anyMutator == \E j \in 1..Len(hs) : hs[j].mutate
  IN /\ (CallIds(r, "out") = expOut
           \/ Rej(r, "outgoing handlers were not called in registration order (all-types first) up to the first refusal",
                  [got |-> CallIds(r, "out"), expected |-> expOut]))
     /\ (CallIds(r, "in") = expIn
           \/ Rej(r, "incoming handlers were not offered the message in order (all-types, then its own type)",
                  [got |-> CallIds(r, "in"), expected |-> expIn]))
     /\ ((Len(r.wire) = (IF tx THEN 1 ELSE 0))
           \/ Rej(r, IF tx THEN "message was not transmitted" ELSE "refused or unsaved message was transmitted",
                  [wire |-> Len(r.wire), saveOk |-> saveOk, action |-> r.a]))
     /\ ((r.a.a = "send" => r.err = ~tx)
           \/ Rej(r, "send call result does not report the refusal / save failure", [err |-> r.err, transmitted |-> tx]))
     \* every message on the wire was saved before, under its own number, with the same bytes
     /\ ((\A j \in 1..Len(r.wire) : \E k \in 1..Len(r.saves) :
            r.saves[k].ok /\ r.saves[k].seq = r.wire[j].seq /\ (anyMutator \/ r.saves[k].bytes = r.wire[j].bytes))
           \/ Rej(r, "message on the wire was not saved first under its own sequence number", [wire |-> Len(r.wire), saves |-> Len(r.saves)]))
     \* outgoing handlers saw the message exactly as transmitted
     \* (a handler that amends the message sees it as transmitted from its own amendment on)
     /\ ((\A j \in 1..Len(r.wire) : \A k \in 1..Len(outCalls) :
             (\A k2 \in (k + 1)..Len(outCalls) : ~IsMutator(outCalls[k2].h)) => outCalls[k].bytes = r.wire[j].bytes)
           \/ Rej(r, "an outgoing handler saw bytes that differ from the transmitted message", [n |-> Len(outCalls)]))
     /\ ((ot # "" => Len(r.saves) = 1)
           \/ Rej(r, "number of Save calls differs", [saves |-> Len(r.saves)]))

Init == l = 1 /\ hs = <<>> /\ allhs = <<>> /\ failAt = 0 /\ nsave = 0 /\ skip = FALSE
Next ==
  /\ l <= Len(Trace)
  /\ l' = l + 1
  /\ LET r == Trace[l]
     IN IF r.k = "dinit" THEN /\ hs' = SelectSeq(r.handlers, LAMBDA h : h.when # "late") /\ allhs' = r.handlers
                                 /\ failAt' = r.saveFailAt /\ nsave' = 0 /\ skip' = FALSE
        ELSE IF r.k = "dreg" THEN hs' = allhs /\ UNCHANGED <<allhs, failAt, nsave, skip>>
        ELSE IF skip THEN UNCHANGED <<hs, allhs, failAt, nsave, skip>>
        ELSE /\ skip' = ~(StepOk(r) = TRUE)
             /\ nsave' = nsave + Len(r.saves)
             /\ UNCHANGED <<hs, allhs, failAt>>
Spec == Init /\ [][Next]_vars
TraceAccepted == TLCGet("stats").diameter = Len(Trace) + 1
=============================================================================
