------------------------------ MODULE FixWire ------------------------------
(***************************************************************************)
(* What a FIX tag=value message on the wire IS.  Pure operators, no        *)
(* variables.  Bytes are naturals 0..255, byte strings are sequences of    *)
(* them, so the same operators serve the small-alphabet exhaustive model   *)
(* (MCFixWire) and the validation of traces recorded from the real code    *)
(* (FixWireTrace) -- there is no abstraction function to get wrong.        *)
(*                                                                         *)
(* Trees (shared by TLC-generated and Go-generated cases; JSON-shaped):    *)
(*   kv  : [k |-> "kv",  tag, ty, pop, txt]                                *)
(*   grp : [k |-> "grp", tag, tmpl, entries]   entries : Seq(Seq(node))    *)
(*   cmp : [k |-> "cmp", items]                                            *)
(* A message is [tags |-> [bs, bl, mt, cs], beginString, msgType,          *)
(*               header, body, trailer]  (header/body/trailer: Seq(node)). *)
(***************************************************************************)
EXTENDS Integers, Sequences, FiniteSets, TLC, SequencesExt

SOH == 1
EQ  == 61
PLUS == 43
MINUS == 45

Digit(d)   == 48 + d
IsDigit(b) == b >= 48 /\ b <= 57

RECURSIVE Dec(_)
Dec(n) == IF n < 10 THEN <<Digit(n)>> ELSE Dec(n \div 10) \o <<Digit(n % 10)>>

Pad3(n) == <<Digit((n \div 100) % 10), Digit((n \div 10) % 10), Digit(n % 10)>>

AllDigits(s) == s # <<>> /\ \A i \in 1..Len(s) : IsDigit(s[i])

RECURSIVE ValDec(_, _)
\* numeric value of the first n bytes of a digit string
ValDec(s, n) == IF n = 0 THEN 0 ELSE 10 * ValDec(s, n - 1) + (s[n] - 48)

RECURSIVE SumRange(_, _, _)
\* sum of s[lo..hi], divide and conquer (recursion depth log n: messages of 10 kB are fine)
SumRange(s, lo, hi) ==
  IF lo > hi THEN 0
  ELSE IF lo = hi THEN s[lo]
  ELSE LET mid == (lo + hi) \div 2 IN SumRange(s, lo, mid) + SumRange(s, mid + 1, hi)
\* sum of the first n bytes of s
SumTo(s, n) == SumRange(s, 1, n)

RECURSIVE ConcatAll(_)
ConcatAll(ss) == IF ss = <<>> THEN <<>> ELSE Head(ss) \o ConcatAll(Tail(ss))

(***************************************************************************)
(* Constructive definition: populated leaves -> bytes                      *)
(***************************************************************************)
RECURSIVE LeavesOfItems(_)
RECURSIVE LeavesOfEntries(_)
LeavesOfNode(n) ==
  CASE n.k = "kv"  -> IF n.pop /\ n.txt # <<>> THEN << <<n.tag, n.txt>> >> ELSE <<>>
    [] n.k = "grp" -> IF n.entries = <<>> THEN <<>>
                      ELSE << <<n.tag, Dec(Len(n.entries))>> >> \o LeavesOfEntries(n.entries)
    [] n.k = "cmp" -> LeavesOfItems(n.items)
LeavesOfItems(items) ==
  IF items = <<>> THEN <<>> ELSE LeavesOfNode(Head(items)) \o LeavesOfItems(Tail(items))
LeavesOfEntries(es) ==
  IF es = <<>> THEN <<>> ELSE LeavesOfItems(Head(es)) \o LeavesOfEntries(Tail(es))

EncField(f) == f[1] \o <<EQ>> \o f[2] \o <<SOH>>
RECURSIVE Enc(_)
Enc(fs) == IF fs = <<>> THEN <<>> ELSE EncField(Head(fs)) \o Enc(Tail(fs))

\* every field after BodyLength and before CheckSum
BodyFields(m) == << <<m.tags.mt, m.msgType>> >> \o LeavesOfItems(m.header)
                   \o LeavesOfItems(m.body) \o LeavesOfItems(m.trailer)

Wire(m) ==
  LET body == Enc(BodyFields(m))
      pre  == EncField(<<m.tags.bs, m.beginString>>)
                \o EncField(<<m.tags.bl, Dec(Len(body))>>) \o body
  IN  pre \o EncField(<<m.tags.cs, Pad3(SumTo(pre, Len(pre)) % 256)>>)

AllFields(m) ==
  LET body == Enc(BodyFields(m))
      pre  == EncField(<<m.tags.bs, m.beginString>>)
                \o EncField(<<m.tags.bl, Dec(Len(body))>>) \o body
  IN  << <<m.tags.bs, m.beginString>>, <<m.tags.bl, Dec(Len(body))>> >>
        \o BodyFields(m) \o << <<m.tags.cs, Pad3(SumTo(pre, Len(pre)) % 256)>> >>

(***************************************************************************)
(* Declarative definition, on bytes alone, written independently of Wire   *)
(***************************************************************************)
\* Segments of w: maximal SOH-free runs; each with its first index, the index
\* of the terminating SOH (Len(w)+1 when unterminated).
SohIdx(w) == SetToSortSeq({i \in 1..Len(w) : w[i] = SOH}, LAMBDA a, b : a < b)
Segs(w) ==
  LET P == SohIdx(w)
      n == Len(P)
      closed == [k \in 1..n |-> [from |-> IF k = 1 THEN 1 ELSE P[k - 1] + 1, to |-> P[k], term |-> TRUE]]
      last == IF n = 0 THEN 0 ELSE P[n]
  IN IF last < Len(w)
     THEN closed \o << [from |-> last + 1, to |-> Len(w) + 1, term |-> FALSE] >>
     ELSE closed

\* index of the first '=' in w[from..to-1], or 0
FirstEq(w, from, to) ==
  LET E == {i \in from..(to - 1) : w[i] = EQ}
  IN IF E = {} THEN 0 ELSE CHOOSE i \in E : \A j \in E : i <= j

\* Field list of w: for each segment its tag (bytes before the first '='),
\* value (bytes after it), and byte positions.  A segment without '=' has
\* hasEq = FALSE, tag = whole segment.
FieldRecs(w) ==
  LET S == Segs(w)
  IN [i \in 1..Len(S) |->
        LET e == FirstEq(w, S[i].from, S[i].to)
        IN [from |-> S[i].from, to |-> S[i].to, term |-> S[i].term, hasEq |-> e # 0,
            tag |-> IF e = 0 THEN SubSeq(w, S[i].from, S[i].to - 1) ELSE SubSeq(w, S[i].from, e - 1),
            val |-> IF e = 0 THEN <<>> ELSE SubSeq(w, e + 1, S[i].to - 1)]]

FieldsOf(w) == LET F == FieldRecs(w) IN [i \in 1..Len(F) |-> <<F[i].tag, F[i].val>>]

\* decimal text, optional sign, at most 9 digits (TLC integers are 32 bit)
LooseNum(s) ==
  LET d == IF s # <<>> /\ s[1] \in {PLUS, MINUS} THEN Tail(s) ELSE s
  IN  AllDigits(d) /\ Len(d) <= 9
LooseVal(s) ==
  LET neg == s[1] = MINUS
      d == IF s[1] \in {PLUS, MINUS} THEN Tail(s) ELSE s
  IN  IF neg THEN 0 - ValDec(d, Len(d)) ELSE ValDec(d, Len(d))

\* The integrity relation "BodyLength and CheckSum agree with the content":
\* lenient about the decimal spelling of BodyLength (what any parser accepts).
Agrees(w, T) ==
  /\ Len(w) > 0 /\ w[Len(w)] = SOH
  /\ LET F == FieldRecs(w)
         n == Len(F)
     IN /\ n >= 3
        /\ \A i \in {1, 2, n} : F[i].hasEq
        /\ F[1].tag = T.bs /\ F[2].tag = T.bl /\ F[n].tag = T.cs
        /\ LooseNum(F[2].val)
        /\ LooseVal(F[2].val) = (F[n].from - 1) - F[2].to
        /\ Len(F[n].val) = 3 /\ AllDigits(F[n].val)
        /\ ValDec(F[n].val, 3) = SumTo(w, F[n].from - 1) % 256

\* The exact frame the encoder must produce (C01)
Framed(w, T) ==
  /\ Agrees(w, T)
  /\ LET F == FieldRecs(w)
     IN /\ Len(F) >= 4
        /\ F[3].hasEq /\ F[3].tag = T.mt
        /\ F[2].val = Dec((F[Len(F)].from - 1) - F[2].to)

(***************************************************************************)
(* Reference parser: works on field boundaries only (C02, C18)             *)
(***************************************************************************)
\* index of the first field in fs[from..to] whose whole tag equals tag, or 0
RECURSIVE FindTag(_, _, _, _)
FindTag(fs, tag, from, to) ==
  IF from > to THEN 0 ELSE IF fs[from][1] = tag THEN from ELSE FindTag(fs, tag, from + 1, to)

Lookup(fs, tag) == LET i == FindTag(fs, tag, 1, Len(fs))
                   IN  IF i = 0 THEN [found |-> FALSE, val |-> <<>>]
                       ELSE [found |-> TRUE, val |-> fs[i][2]]

\* tag of the first leaf of a template item list (the entry delimiter)
RECURSIVE FirstTag(_)
FirstTag(items) ==
  IF items = <<>> THEN <<>>
  ELSE LET h == Head(items)
       IN CASE h.k = "kv" -> h.tag
            [] h.k = "grp" -> h.tag
            [] h.k = "cmp" -> IF FirstTag(h.items) # <<>> THEN FirstTag(h.items) ELSE FirstTag(Tail(items))

\* start indices (within from..to) of the fields that carry tag
StartsOf(fs, tag, from, to) == {i \in from..to : fs[i][1] = tag}

RECURSIVE ParseItems(_, _, _, _)
RECURSIVE ParseEntries(_, _, _, _, _)
\* fs: all fields; [from..to]: the window the item is looked up in
ParseNode(n, fs, from, to) ==
  CASE n.k = "kv" ->
         LET i == FindTag(fs, n.tag, from, to)
         IN  IF i = 0 THEN [n EXCEPT !.pop = FALSE, !.txt = <<>>]
             ELSE [n EXCEPT !.pop = TRUE, !.txt = fs[i][2]]
    [] n.k = "grp" ->
         LET c == FindTag(fs, n.tag, from, to)
         IN  IF c = 0 THEN [n EXCEPT !.entries = <<>>]
             ELSE LET ft == FirstTag(n.tmpl)
                      starts == StartsOf(fs, ft, c + 1, to)
                  IN [n EXCEPT !.entries = ParseEntries(n.tmpl, fs, starts, c + 1, to)]
    [] n.k = "cmp" -> [n EXCEPT !.items = ParseItems(n.items, fs, from, to)]
ParseItems(items, fs, from, to) ==
  [i \in 1..Len(items) |-> ParseNode(items[i], fs, from, to)]
\* entries: maximal runs starting at a delimiter-tag field; the last one runs to `to`
ParseEntries(tmpl, fs, starts, from, to) ==
  IF starts = {} THEN <<>>
  ELSE LET s == CHOOSE x \in starts : \A y \in starts : x <= y
           rest == starts \ {s}
           e == IF rest = {} THEN to ELSE (CHOOSE x \in rest : \A y \in rest : x <= y) - 1
       IN << ParseItems(tmpl, fs, s, e) >> \o ParseEntries(tmpl, fs, rest, e + 1, to)

\* m with every leaf unpopulated and every group emptied: the parse target
RECURSIVE BlankItems(_)
BlankNode(n) ==
  CASE n.k = "kv"  -> [n EXCEPT !.pop = FALSE, !.txt = <<>>]
    [] n.k = "grp" -> [n EXCEPT !.entries = <<>>]
    [] n.k = "cmp" -> [n EXCEPT !.items = BlankItems(n.items)]
BlankItems(items) == [i \in 1..Len(items) |-> BlankNode(items[i])]

RefParse(m, w) ==
  LET fs == FieldsOf(w)
      n == Len(fs)
  IN [m EXCEPT !.header  = ParseItems(m.header, fs, 1, n),
               !.body    = ParseItems(m.body, fs, 1, n),
               !.trailer = ParseItems(m.trailer, fs, 1, n)]

\* structure: number of entries of every group, in definition order
RECURSIVE ShapeItems(_)
RECURSIVE ShapeEntries(_)
ShapeNode(n) ==
  CASE n.k = "kv"  -> <<>>
    [] n.k = "grp" -> <<Len(n.entries)>> \o ShapeEntries(n.entries)
    [] n.k = "cmp" -> ShapeItems(n.items)
ShapeItems(items) == IF items = <<>> THEN <<>> ELSE ShapeNode(Head(items)) \o ShapeItems(Tail(items))
ShapeEntries(es) == IF es = <<>> THEN <<>> ELSE ShapeItems(Head(es)) \o ShapeEntries(Tail(es))

\* positional leaf list (one element per template leaf, populated or not):
\* this is what "the same value for every field" compares
RECURSIVE SlotsItems(_)
RECURSIVE SlotsEntries(_)
SlotsNode(n) ==
  CASE n.k = "kv"  -> << [tag |-> n.tag, pop |-> n.pop /\ n.txt # <<>>,
                          txt |-> IF n.pop THEN n.txt ELSE <<>>] >>
    [] n.k = "grp" -> SlotsEntries(n.entries)
    [] n.k = "cmp" -> SlotsItems(n.items)
SlotsItems(items) == IF items = <<>> THEN <<>> ELSE SlotsNode(Head(items)) \o SlotsItems(Tail(items))
SlotsEntries(es) == IF es = <<>> THEN <<>> ELSE SlotsItems(Head(es)) \o SlotsEntries(Tail(es))

SameContent(a, b) ==
  /\ SlotsItems(a.header) = SlotsItems(b.header) /\ ShapeItems(a.header) = ShapeItems(b.header)
  /\ SlotsItems(a.body) = SlotsItems(b.body) /\ ShapeItems(a.body) = ShapeItems(b.body)
  /\ SlotsItems(a.trailer) = SlotsItems(b.trailer) /\ ShapeItems(a.trailer) = ShapeItems(b.trailer)

(***************************************************************************)
(* Preconditions of C02 (R6)                                               *)
(***************************************************************************)
RECURSIVE TagsOfItems(_)
TagsOfNode(n) ==
  CASE n.k = "kv"  -> <<n.tag>>
    [] n.k = "grp" -> <<n.tag>> \o TagsOfItems(n.tmpl)
    [] n.k = "cmp" -> TagsOfItems(n.items)
TagsOfItems(items) == IF items = <<>> THEN <<>> ELSE TagsOfNode(Head(items)) \o TagsOfItems(Tail(items))

NoDup(s) == \A i, j \in 1..Len(s) : i # j => s[i] # s[j]

TemplateTags(m) == <<m.tags.bs, m.tags.bl, m.tags.mt, m.tags.cs>>
                     \o TagsOfItems(m.header) \o TagsOfItems(m.body) \o TagsOfItems(m.trailer)

\* a tag number occupies one position in the template
WellFormedTemplate(m) == NoDup(TemplateTags(m)) /\ \A i \in 1..Len(TemplateTags(m)) : AllDigits(TemplateTags(m)[i])

\* first leaf of an entry is populated, no populated value is empty, values SOH-free
RECURSIVE FirstLeafPop(_)
FirstLeafPop(items) ==
  IF items = <<>> THEN FALSE
  ELSE LET h == Head(items)
       IN CASE h.k = "kv"  -> h.pop /\ h.txt # <<>>
            [] h.k = "grp" -> h.entries # <<>>
            [] h.k = "cmp" -> IF h.items = <<>> THEN FirstLeafPop(Tail(items)) ELSE FirstLeafPop(h.items)
NoSOH(s) == \A i \in 1..Len(s) : s[i] # SOH
RECURSIVE WFItems(_)
RECURSIVE WFEntries(_)
WFNode(n) ==
  CASE n.k = "kv"  -> (n.pop => n.txt # <<>> /\ NoSOH(n.txt))
    [] n.k = "grp" -> WFEntries(n.entries)
    [] n.k = "cmp" -> WFItems(n.items)
WFItems(items) == \A i \in 1..Len(items) : WFNode(items[i])
WFEntries(es) == \A i \in 1..Len(es) : FirstLeafPop(es[i]) /\ WFItems(es[i])

WellFormedPop(m) ==
  /\ WFItems(m.header) /\ WFItems(m.body) /\ WFItems(m.trailer)
  /\ m.beginString # <<>> /\ NoSOH(m.beginString) /\ m.msgType # <<>> /\ NoSOH(m.msgType)

=============================================================================
