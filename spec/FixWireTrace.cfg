SPECIFICATION Spec
CONSTANT TraceFile = "TRACEFILE"
POSTCONDITION TraceAccepted
CHECK_DEADLOCK FALSE
