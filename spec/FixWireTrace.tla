--------------------------- MODULE FixWireTrace ---------------------------
(***************************************************************************)
(* Trace validation of codec observations recorded from the real library   *)
(* (harness/wire) against FixWire.  One record per line of the ndjson      *)
(* file; every record is consumed by one step; a record the specification  *)
(* does not explain prints a line                                          *)
(*    <<"REJECT", property, record id, reason>>                            *)
(* and the walk continues so that the rest of the trace is still checked.  *)
(* <<"SPECERR", ...>> marks a record outside the domain of the spec or an  *)
(* inconsistency of the spec itself (never a verdict on the code).         *)
(***************************************************************************)
EXTENDS FixWire, Json

CONSTANT TraceFile
Trace == ndJsonDeserialize(TraceFile)

VARIABLE l
vars == <<l>>

Rej(prop, id, what, detail) == PrintT("REJECT " \o ToJson(<<prop, id, what, detail>>))
SpecErr(id, what)   == PrintT("SPECERR " \o ToJson(<<id, what>>))
Need(cond, prop, id, what) == IF cond THEN TRUE ELSE Rej(prop, id, what, [x |-> 0])
NeedD(cond, prop, id, what, detail) == IF cond THEN TRUE ELSE Rej(prop, id, what, detail)

Blank(m) == [m EXCEPT !.header = BlankItems(m.header), !.body = BlankItems(m.body),
                      !.trailer = BlankItems(m.trailer)]

\* values SOH-free and every group entry starts with a populated field;
\* empty texts allowed (they must simply be absent from the wire)
RECURSIVE LooseItems(_)
RECURSIVE LooseEntries(_)
LooseNode(n) ==
  CASE n.k = "kv"  -> NoSOH(n.txt)
    [] n.k = "grp" -> LooseEntries(n.entries)
    [] n.k = "cmp" -> LooseItems(n.items)
LooseItems(items) == \A i \in 1..Len(items) : LooseNode(items[i])
LooseEntries(es) == \A i \in 1..Len(es) : FirstLeafPop(es[i]) /\ LooseItems(es[i])
SerDomain(m) == /\ LooseItems(m.header) /\ LooseItems(m.body) /\ LooseItems(m.trailer)
                /\ m.beginString # <<>> /\ NoSOH(m.beginString)
                /\ m.msgType # <<>> /\ NoSOH(m.msgType)

(***************************************************************************)
(* "case": a message built with the library's own constructs, serialized,  *)
(* parsed back into a fresh message of the same (or another) template      *)
(***************************************************************************)
CheckSer(r) ==
  LET m == r.m
      T == m.tags
      w == r.wire
      F == FieldsOf(w)
      n == Len(F)
  IN /\ Need(r.serOk, "C01", r.id, "serialization returned an error")
     /\ r.serOk =>
          /\ Need(Framed(w, T), "C01", r.id, "not framed: BeginString/BodyLength/MsgType/CheckSum")
          /\ NeedD(/\ n >= 3
                   /\ F[1] = <<T.bs, m.beginString>> /\ F[2][1] = T.bl /\ F[n][1] = T.cs
                   /\ SubSeq(F, 3, n - 1) = BodyFields(m),
                   "C17", r.id, "wire fields differ from the populated leaves",
                   LET E == BodyFields(m)
                       G == IF n >= 3 THEN SubSeq(F, 3, n - 1) ELSE <<>>
                       D == {j \in 1..Len(E) : j > Len(G) \/ G[j] # E[j]}
                       j == IF D = {} THEN Len(E) + 1 ELSE CHOOSE x \in D : \A y \in D : x <= y
                       nT == Len(LeavesOfItems(m.trailer))
                   IN [at |-> j, expected |-> IF j <= Len(E) THEN E[j] ELSE <<>>,
                       got |-> IF j <= Len(G) THEN G[j] ELSE <<>>, nExpected |-> Len(E), nGot |-> Len(G),
                       \* the wire is exactly the expected field list without the trailer's leaves
                       trailerDropped |-> nT > 0 /\ G = SubSeq(E, 1, Len(E) - nT)])
          /\ (Framed(w, T) /\ SubSeq(F, 3, n - 1) = BodyFields(m) /\ F[1] = <<T.bs, m.beginString>>)
               => (w = Wire(m) \/ SpecErr(r.id, "Framed and field list agree but Wire differs"))

CheckParse(r) ==
  LET m == r.m
      w == r.wire
      tgt == IF r.sameTemplate THEN Blank(m) ELSE r.target
      \* the message itself when it was serialized as specified, otherwise what the wire really
      \* carries (a serialization defect is reported once, by C17/C01, not again here)
      exp == IF r.strictRT \/ (r.sameTemplate /\ w = Wire(m)) THEN m ELSE RefParse(tgt, w)
      prop == IF r.lookalike THEN "C18" ELSE "C02"
  IN r.serOk /\ r.parsed =>
       /\ (r.sameTemplate => (SameContent(RefParse(Blank(m), Wire(m)), m)
                               \/ SpecErr(r.id, "RefParse does not invert Wire")))
       /\ Need(r.parse.ok, prop, r.id, "strict parse of a valid message failed")
       /\ r.parse.ok =>
            /\ Need(SameContent(r.parse.m, exp), prop, r.id, "parsed content differs")
            /\ (r.sameTemplate => Need(r.parse.reser = w, prop, r.id, "re-serialization differs"))
            \* C17 speaks of fields populated "by parsing" too: what a parsed message serializes to is its source, field for field
            /\ (r.sameTemplate => Need(r.parse.reser = w, "C17", r.id, "the serialized form of the parsed message differs from the fields it was parsed from"))
       /\ Need(r.nonstrict.ok, prop, r.id, "non-strict parse of a valid message failed")
       /\ r.nonstrict.ok => Need(SameContent(r.nonstrict.m, exp), prop, r.id, "non-strict parsed content differs")

CheckLookups(r) ==
  LET F == FieldsOf(r.wire)
  IN r.serOk => \A i \in 1..Len(r.lookups) :
       LET q == r.lookups[i]
           e == Lookup(F, q.tag)
       IN NeedD(q.found = e.found /\ (e.found => q.val = e.val), "C18", r.id,
                "lookup differs", [tag |-> q.tag, found |-> q.found, val |-> q.val, expFound |-> e.found, expVal |-> e.val])

\* group entries of which nothing, or not the first field, is populated: outside the domain of the content checks (what such a
\* message "contains" is not settled by the properties), but C01 speaks of whichever fields are populated: the framing must be right
CheckFrameOnly(r) ==
  /\ Need(r.serOk, "C01", r.id, "serialization returned an error")
  /\ r.serOk => Need(Framed(r.wire, r.m.tags), "C01", r.id, "not framed: BeginString/BodyLength/MsgType/CheckSum")

CheckCase(r) ==
  IF r.frameOnly THEN CheckFrameOnly(r)
  ELSE IF ~SerDomain(r.m) THEN SpecErr(r.id, "case outside the serialization domain")
  ELSE /\ CheckSer(r)
       /\ IF r.parsed /\ ~(WellFormedTemplate(IF r.sameTemplate THEN r.m ELSE r.target) /\ WellFormedPop(r.m))
          THEN SpecErr(r.id, "parse case outside the C02 domain")
          ELSE CheckParse(r)
       /\ CheckLookups(r)

(***************************************************************************)
(* "damage": the whole one-byte neighbourhood of a valid message           *)
(***************************************************************************)
\* where a damage position falls in the base message: field index and part
Where(w, kind, pos) ==
  LET F == FieldRecs(w)
      q == pos + 1
      hits == {k \in 1..Len(F) : F[k].from <= q /\ q <= F[k].to}
  IN IF hits = {} THEN [field |-> 0, part |-> "end"]
     ELSE LET k == CHOOSE x \in hits : TRUE
              eq == F[k].from + Len(F[k].tag)
          IN [field |-> k,
              part |-> IF kind = "insert"
                       THEN (IF q <= eq THEN "tag" ELSE "value")
                       ELSE (IF q < eq THEN "tag" ELSE IF q = eq THEN "eq"
                             ELSE IF q = F[k].to THEN "soh" ELSE "value")]

CheckDamage(r) ==
  /\ (Framed(r.wire, r.tags) \/ SpecErr(r.id, "damage base is not a framed message"))
  /\ \A i \in 1..Len(r.accepted) :
       LET a == r.accepted[i]
           wh == Where(r.wire, a.kind, a.pos)
       IN Rej("C03", r.id, "damaged variant accepted",
              [kind |-> a.kind, pos |-> a.pos, b |-> a.b, mode |-> a.mode, field |-> wh.field, part |-> wh.part,
               integrity |-> IF Agrees(a.bytes, r.tags) THEN "holds" ELSE "broken"])
  \* "is rejected with an error": a parser that panics or does not return on a damaged message has not rejected it (C03, C11)
  /\ \A i \in 1..Len(r.crashed) :
       LET a == r.crashed[i]
       IN /\ Rej("C03", r.id, "damaged variant was not rejected with an error: the parser panicked or did not return",
                 [kind |-> a.kind, pos |-> a.pos, b |-> a.b, how |-> a.mode])
          /\ Rej("C11", r.id, "the parser panicked or did not return on a damaged message",
                 [kind |-> a.kind, pos |-> a.pos, b |-> a.b, how |-> a.mode])

(***************************************************************************)
(* "raw": an arbitrary byte string fed to the parser / the tag lookup      *)
(***************************************************************************)
CheckRaw(r) ==
  /\ NeedD(r.outcome \in {"ok", "err"}, "C11", r.id, "decoder did not return", [outcome |-> r.outcome, op |-> r.op, detail |-> r.detail])
  /\ (r.op # "lookup" /\ r.outcome = "ok")
       => Need(Agrees(r.input, r.tags), "C03", r.id, "accepted although BodyLength/CheckSum disagree")

(***************************************************************************)
(* "value": an operation sequence on one value object (Values state        *)
(* machine: [valid, txt]); obs[i] is what a field holding it emits          *)
(***************************************************************************)
RECURSIVE RunOps(_, _, _, _)
\* st = [valid, txt]; returns TRUE, printing on the first mismatch
RunOps(r, i, valid, txt) ==
  IF i > Len(r.ops) THEN TRUE
  ELSE LET o == r.ops[i]
           v2 == CASE o.op \in {"new", "set", "parse"} -> TRUE
                   [] o.op \in {"setnil", "parsenil", "zero"} -> FALSE
           t2 == IF v2 THEN o.txt ELSE <<>>
           emitted == v2 /\ t2 # <<>>
           ob == r.obs[i]
       IN /\ NeedD(ob.emitted = emitted /\ (emitted => ob.txt = t2) /\ ob.null = ~v2,
                   "C17", r.id, "value operation result differs",
                   [ty |-> r.ty, step |-> i, op |-> o.op, emitted |-> ob.emitted, null |-> ob.null,
                    expEmitted |-> emitted, txt |-> ob.txt, expTxt |-> t2])
          /\ RunOps(r, i + 1, v2, t2)

CheckValue(r) == RunOps(r, 1, FALSE, <<>>)

CheckRecord(r) ==
  CASE r.k = "case"   -> CheckCase(r)
    [] r.k = "damage" -> CheckDamage(r)
    [] r.k = "raw"    -> CheckRaw(r)
    [] r.k = "value"  -> CheckValue(r)
    [] OTHER          -> SpecErr("?", <<"unknown record kind", r.k>>)

Init == l = 1
\* "= TRUE" makes TLC evaluate the check as a value, not expand it as an action
Next == l <= Len(Trace) /\ (CheckRecord(Trace[l]) = TRUE) /\ l' = l + 1
Spec == Init /\ [][Next]_vars

\* every record consumed: one state per record plus the initial one
TraceAccepted == TLCGet("stats").diameter = Len(Trace) + 1
=============================================================================
