------------------------------ MODULE Framing ------------------------------
(***************************************************************************)
(* Byte stream <-> messages, per connection (C04): Conn.runReader, the     *)
(* reader loop handing messages to the handler, and the writer loop.       *)
(*                                                                         *)
(* Inbound: the transport delivers the peer's byte stream in arbitrary     *)
(* chunks; the reader takes delimiter-terminated segments and closes a     *)
(* message with the segment that starts with the CheckSum tag ("10=").     *)
(* Outbound: messages handed to the connection are written whole, in       *)
(* hand-off order, by a single writer.                                     *)
(***************************************************************************)
EXTENDS Integers, Sequences, FiniteSets, TLC

SOH == 1
EndTag == <<49, 48, 61>>     \* "10="

RECURSIVE Concat(_)
Concat(ss) == IF ss = <<>> THEN <<>> ELSE Head(ss) \o Concat(Tail(ss))

IsEnd(seg) == Len(seg) >= 3 /\ SubSeq(seg, 1, 3) = EndTag

\* functional form of the reader: messages produced from a complete byte string, and the rest
RECURSIVE Reassemble(_, _, _, _)
\* bytes, position, current partial message, messages so far
Reassemble(b, i, segStart, acc) ==
  IF i > Len(b) THEN acc
  ELSE IF b[i] = SOH
       THEN LET seg == SubSeq(b, segStart, i)
                cur == acc.partial \o seg
            IN IF IsEnd(seg)
               THEN Reassemble(b, i + 1, i + 1, [msgs |-> Append(acc.msgs, cur), partial |-> <<>>])
               ELSE Reassemble(b, i + 1, i + 1, [msgs |-> acc.msgs, partial |-> cur])
       ELSE Reassemble(b, i + 1, segStart, acc)
Messages(b) == Reassemble(b, 1, 1, [msgs |-> <<>>, partial |-> <<>>]).msgs

\* a message the framing rule can carry: ends with a "10=...<SOH>" segment and has no earlier
\* segment starting with "10="
WellFramed(m) == Messages(m) = <<m>>
=============================================================================
