---------------------------- MODULE FramingTrace ----------------------------
(* Validation of per-connection records of harness/wirerig (C04) against Framing. *)
EXTENDS Framing, Json, SequencesExt

CONSTANT TraceFile
Trace == ndJsonDeserialize(TraceFile)
VARIABLE l

Rej(r, what, detail) == PrintT("REJECT " \o ToJson(<<"C04", r.id \o "/conn" \o ToString(r.conn), what, detail>>)) /\ FALSE
SpecErr(r, what) == PrintT("SPECERR " \o ToJson(<<r.id, what>>)) /\ FALSE

FirstDiff(a, b) == LET D == {j \in 1..Len(a) : j > Len(b) \/ a[j] # b[j]}
                   IN IF D = {} THEN Len(a) + 1 ELSE CHOOSE j \in D : \A k \in D : j <= k

\* a is what remains of b after leaving some elements out (order kept, nothing twice)
RECURSIVE IsOrderedPart(_, _)
IsOrderedPart(a, b) ==
  IF a = <<>> THEN TRUE
  ELSE IF b = <<>> THEN FALSE
  ELSE IF Head(a) = Head(b) THEN IsOrderedPart(Tail(a), Tail(b))
  ELSE IsOrderedPart(a, Tail(b))

Check(r) ==
  LET stream == Concat(r.sent)
      exp == Messages(stream)
  IN /\ ((\A j \in 1..Len(r.sent) : WellFramed(r.sent[j])) \/ SpecErr(r, "scenario message is not well framed"))
     /\ (exp = r.sent \/ SpecErr(r, "functional reader does not reproduce the sent messages"))
     /\ ((IF r.stopped > 0
           THEN /\ Len(r.delivered) >= r.stopped
                /\ SubSeq(r.delivered, 1, r.stopped) = SubSeq(exp, 1, r.stopped)
                /\ IsOrderedPart(SubSeq(r.delivered, r.stopped + 1, Len(r.delivered)), SubSeq(exp, r.stopped + 1, Len(exp)))
           ELSE r.delivered = exp)
           \/ Rej(r, "handler was not given exactly the messages its peer sent (each once, whole, in order)",
                  [role |-> r.role, sent |-> Len(r.sent), delivered |-> Len(r.delivered), firstDifference |-> FirstDiff(exp, r.delivered),
                   chunks |-> r.chunks]))
     /\ (~r.overlap \/ Rej(r, "two messages of one connection were dispatched at the same time", [role |-> r.role]))
     \* the property speaks about the outbound byte stream, not about how many Write calls carry it; after a failed write the
     \* connection may be given up, so the stream may end early - but what is on it is still the hand-off, whole and in order
     /\ ((IF r.writeFault THEN IsPrefix(Concat(r.written), Concat(r.handoff)) ELSE Concat(r.written) = Concat(r.handoff))
           \/ Rej(r, "outbound stream is not the handed-off messages, whole and in hand-off order",
                  [role |-> r.role, handoff |-> Len(r.handoff), writes |-> Len(r.written), firstDifference |-> FirstDiff(r.handoff, r.written),
                   sameBytes |-> Concat(r.written) = Concat(r.handoff), writeFault |-> r.writeFault]))

Init == l = 1
Next == l <= Len(Trace) /\ (Check(Trace[l]) \in BOOLEAN) /\ l' = l + 1
Spec == Init /\ [][Next]_l
TraceAccepted == TLCGet("stats").diameter = Len(Trace) + 1
=============================================================================
