----------------------------- MODULE Generator -----------------------------
(***************************************************************************)
(* What the package generated from an XML schema must contain (C12).       *)
(*                                                                         *)
(* A schema (as read by the harness with its own XML structs) is           *)
(*   [fields : Seq(<<name, number>>), owners : Seq(owner),                 *)
(*    dupFieldNumber, dupMsgType : BOOLEAN]                                *)
(* owner = [name, kind ("message" | "header" | "trailer" | "component" |   *)
(*          "entry"), msgType, skipExcluded, members : Seq(member)]        *)
(* member = [kind ("field" | "group" | "component"), name, required,       *)
(*           excluded, decl, fixType, goType]                              *)
(* (decl / fixType / goType are the name mangling and the type mapping of  *)
(* source/types.xml applied by the harness; order, indices, required-ness, *)
(* constants and acceptance are decided here.)                             *)
(***************************************************************************)
EXTENDS Integers, Sequences, FiniteSets, TLC

\* schemas with duplicate field numbers or duplicate message types are rejected
Accepts(s) == ~s.dupFieldNumber /\ ~s.dupMsgType

\* members that become members of the generated type: the framing fields kept in the base
\* message are left out of header, trailer and components
Visible(o) == IF o.skipExcluded THEN SelectSeq(o.members, LAMBDA m : ~m.excluded) ELSE o.members

\* the ordered constructor list of the type
MemberDecls(o) ==
  LET v == Visible(o)
  IN [j \in 1..Len(v) |-> [kind |-> v[j].kind,
                           decl |-> IF v[j].kind = "field" THEN "Field" \o v[j].name ELSE v[j].decl,
                           fixType |-> IF v[j].kind = "field" THEN v[j].fixType ELSE ""]]
\* one getter/setter pair per member; the index is the member's position in the constructor list
AccessorDecls(o) ==
  LET v == Visible(o)
  IN [j \in 1..Len(v) |-> [name |-> v[j].decl, index |-> j - 1, goType |-> v[j].goType, setter |-> TRUE]]
\* the populating constructor takes exactly the required members, in order
ArgTypes(o) == LET r == SelectSeq(Visible(o), LAMBDA m : m.required) IN [j \in 1..Len(r) |-> r[j].goType]

FieldConsts(s) == {<<"Field" \o s.fields[j][1], s.fields[j][2]>> : j \in 1..Len(s.fields)}
\* enumeration constants (two values of one field may share a description: then the later one wins in Go and the
\* package would not compile; such pairs are left to the compile check)
EnumConsts(s) == {<<s.enums[j][1], s.enums[j][2]>> : j \in {k \in 1..Len(s.enums) : \A k2 \in 1..Len(s.enums) : s.enums[k2][1] = s.enums[k][1] => k2 = k}}
=============================================================================
