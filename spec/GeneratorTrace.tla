--------------------------- MODULE GeneratorTrace ---------------------------
(* Validation of what the real generator produced for a schema (harness/cmd/gendrv) against Generator. *)
EXTENDS Generator, Json, SequencesExt

CONSTANT TraceFile
Trace == ndJsonDeserialize(TraceFile)
VARIABLE l

Rej(r, what, detail) == PrintT("REJECT " \o ToJson(<<"C12", r.id, what, detail>>)) /\ FALSE

Named(q, n) == SelectSeq(q, LAMBDA x : x.name = n)

CheckOwner(r, o) ==
  LET ds == Named(r.owners, o.name)
  IN IF ds = <<>> THEN Rej(r, "type missing from the generated package", [type |-> o.name])
     ELSE LET d == ds[1]
              argTypes == [j \in 1..Len(d.args) |-> d.args[j].type]
          IN /\ (d.members = MemberDecls(o)
                   \/ Rej(r, "members are not the schema's, in schema order, with the mapped value types",
                          [type |-> o.name, expected |-> MemberDecls(o), got |-> d.members]))
             /\ (d.accessors = AccessorDecls(o)
                   \/ Rej(r, "accessors (name, index, Go type, setter) differ from the schema",
                          [type |-> o.name, expected |-> AccessorDecls(o), got |-> d.accessors]))
             \* (the property speaks of messages and components; group entry types are built empty)
             /\ (o.kind = "entry" \/ argTypes = ArgTypes(o)
                   \/ Rej(r, "populating constructor arguments are not exactly the required members in order",
                          [type |-> o.name, expected |-> ArgTypes(o), got |-> argTypes]))
             /\ ((o.kind # "message" \/ d.msgType = o.msgType)
                   \/ Rej(r, "message type constant differs from the schema", [type |-> o.name, expected |-> o.msgType, got |-> d.msgType]))

\* a repeating group type: count tag constant and the same member list as its entry type
CheckGroup(r, o) ==
  LET \* (entry owner: name = <X>Entry; msgType carries the group's schema name)
      gs == SelectSeq(r.owners, LAMBDA x : x.noTag = "Field" \o o.msgType)
  IN IF gs = <<>> THEN Rej(r, "group type missing from the generated package", [group |-> o.msgType])
     ELSE (gs[1].members = MemberDecls(o)
             \/ Rej(r, "group template members differ from the schema", [group |-> o.msgType, expected |-> MemberDecls(o), got |-> gs[1].members]))

Check(r) ==
  LET s == r.schema
  IN /\ (r.accepted = Accepts(s)
           \/ Rej(r, IF r.accepted THEN "schema with duplicate field numbers or message types was accepted"
                     ELSE "valid schema was refused", [error |-> r.genError]))
     /\ (r.accepted /\ Accepts(s)) =>
          /\ ((r.dirRelative = "ok" /\ r.dirNested = "ok" /\ r.dirAbsolute = "ok" /\ r.dirPopulated = "ok")
                \/ Rej(r, "the package depends on where the output directory is located (relative, nested, absolute, already holding a package)",
                       [relative |-> r.dirRelative, nested |-> r.dirNested, absolute |-> r.dirAbsolute, populated |-> r.dirPopulated]))
          /\ (r.deterministic \/ Rej(r, "two generation runs differ", [x |-> 0]))
          /\ (r.sameDoc = "ok" \/ Rej(r, "generating again from the same parsed schema (one process, fresh generator) yields another package", [sameDoc |-> r.sameDoc]))
          /\ (r.compiled \/ Rej(r, "the generated package does not compile", [error |-> r.compileErr]))
          /\ (r.behaviourOk \/ Rej(r, "a setter does not put exactly its own field on the wire or the getter does not return it",
                                  [failures |-> r.behaviourErrs]))
          /\ ((\A c \in FieldConsts(s) : c[1] \in DOMAIN r.consts /\ r.consts[c[1]] = c[2])
                \/ Rej(r, "a field number constant differs from the schema",
                       [bad |-> {c \in FieldConsts(s) : ~(c[1] \in DOMAIN r.consts /\ r.consts[c[1]] = c[2])}]))
          /\ ((\A c \in EnumConsts(s) : c[1] \in DOMAIN r.consts /\ r.consts[c[1]] = c[2])
                \/ Rej(r, "an enumeration constant differs from the schema",
                       [bad |-> {c \in EnumConsts(s) : ~(c[1] \in DOMAIN r.consts /\ r.consts[c[1]] = c[2])}]))
          /\ \A j \in 1..Len(s.owners) : CheckOwner(r, s.owners[j])
          /\ \A j \in 1..Len(s.owners) : s.owners[j].kind = "entry" => CheckGroup(r, s.owners[j])
          /\ (r.refCompared => (r.refSame \/ Rej(r, "the shipped reference package differs from what the generator produces from the reference schema",
                                                 [differences |-> r.refDiff])))

Init == l = 1
Next == l <= Len(Trace) /\ (Check(Trace[l]) \in BOOLEAN) /\ l' = l + 1
Spec == Init /\ [][Next]_l
TraceAccepted == TLCGet("stats").diameter = Len(Trace) + 1
=============================================================================
