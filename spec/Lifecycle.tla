----------------------------- MODULE Lifecycle -----------------------------
(***************************************************************************)
(* Goroutines, channels and contexts of one served connection (C13):       *)
(* Acceptor.serve / Initiator.Serve, Conn.serve + runReader, the handler   *)
(* loop, the writer loop, the reader loop, the error drainer.              *)
(*                                                                         *)
(*   runReader  --c.reader-->  readerLoop  --h.incoming-->  handlerRun     *)
(*   handlerRun / senders  --h.out-->  writerLoop  --> socket              *)
(*                                                                         *)
(* Termination causes are one-shot environment actions that may fire in    *)
(* any reachable state, so "at every point with traffic in flight" is      *)
(* every state TLC reaches.  The property: once a cause has fired, a state *)
(* in which no library step is enabled has every library goroutine         *)
(* finished, the socket closed, and no sender blocked.                     *)
(*                                                                         *)
(* Constants name what today's code does at the three hand-offs:           *)
(*   ReaderSendCtx   - runReader's send on c.reader also watches the ctx   *)
(*   IncomingSendCtx - ServeIncoming's send on h.incoming watches h.ctx    *)
(*   HandlerCtxTied  - the handler's context ends with the connection      *)
(*                     (acceptor: yes; initiator: no -> known finding)     *)
(***************************************************************************)
EXTENDS Integers, Sequences, FiniteSets, TLC

CONSTANTS InMsgs,          \* inbound messages the peer sends before going quiet
          Senders,         \* application goroutines that call Send once each
          CapR, CapH, CapO, \* capacities of c.reader, h.incoming, h.out
          ReaderSendCtx, IncomingSendCtx, HandlerCtxTied

VARIABLES sock,        \* "open" | "closed"
          toRead,      \* inbound messages not yet read from the socket
          eof,         \* the peer closed: Read fails once toRead = 0
          connCtx,     \* Conn.ctx / the per-connection ctx: TRUE = cancelled
          hCtx,        \* handler context cancelled
          rCh, hCh, oCh,   \* channel occupancies
          errPending,  \* an error is being offered on h.errors by StopWithError
          pcReader,    \* runReader: "read" | "send" | "done"
          pcConn,      \* the goroutine running conn.serve: "wait" | "stopErr" | "done"
          pcRun,       \* handler loop: "loop" | "done"
          drainer,     \* error drainer running (after Run returned)
          errClosed,   \* CloseErrorChan called (after eg.Wait)
          pcWriter,    \* "loop" | "done"
          pcRLoop,     \* reader loop: "loop" | "serve" | "done"
          pcSend,      \* per sender: "idle" | "send" | "done"
          cause        \* "none" or the cause that fired
vars == <<sock, toRead, eof, connCtx, hCtx, rCh, hCh, oCh, errPending, pcReader, pcConn, pcRun, drainer,
          errClosed, pcWriter, pcRLoop, pcSend, cause>>

Init == /\ sock = "open" /\ toRead = InMsgs /\ eof = FALSE /\ connCtx = FALSE /\ hCtx = FALSE
        /\ rCh = 0 /\ hCh = 0 /\ oCh = 0 /\ errPending = FALSE
        /\ pcReader = "read" /\ pcConn = "wait" /\ pcRun = "loop" /\ drainer = FALSE /\ errClosed = FALSE
        /\ pcWriter = "loop" /\ pcRLoop = "loop" /\ pcSend = [p \in Senders |-> "idle"] /\ cause = "none"

\* cancelFun of Acceptor.serve / Initiator.Close: close the socket, cancel the connection context
\* (and with it the handler context when it is tied to the connection)
Cancel == /\ sock' = "closed" /\ connCtx' = TRUE /\ hCtx' = (hCtx \/ HandlerCtxTied)

U(v) == UNCHANGED v

\* ---- runReader ----
ReaderRead ==
  /\ pcReader = "read"
  /\ IF connCtx THEN pcReader' = "done" /\ U(<<toRead>>)
     ELSE IF sock = "closed" \/ (eof /\ toRead = 0) THEN pcReader' = "done" /\ U(<<toRead>>)    \* read error
     ELSE toRead > 0 /\ toRead' = toRead - 1 /\ pcReader' = "send"
  /\ U(<<sock, eof, connCtx, hCtx, rCh, hCh, oCh, errPending, pcConn, pcRun, drainer, errClosed, pcWriter, pcRLoop, pcSend, cause>>)
ReaderSend ==
  /\ pcReader = "send"
  /\ \/ rCh < CapR + (IF pcRLoop = "loop" THEN 1 ELSE 0) /\ rCh' = rCh + 1 /\ pcReader' = "read"
     \/ ReaderSendCtx /\ connCtx /\ pcReader' = "done" /\ U(<<rCh>>)
  /\ U(<<sock, toRead, eof, connCtx, hCtx, hCh, oCh, errPending, pcConn, pcRun, drainer, errClosed, pcWriter, pcRLoop, pcSend, cause>>)
\* ---- goroutine 1: conn.serve(); on error StopWithError (blocks until somebody receives); then cancelFun ----
ConnServeReturn ==
  /\ pcConn = "wait" /\ pcReader = "done"
  /\ pcConn' = "stopErr" /\ errPending' = TRUE
  /\ U(<<sock, toRead, eof, connCtx, hCtx, rCh, hCh, oCh, pcReader, pcRun, drainer, errClosed, pcWriter, pcRLoop, pcSend, cause>>)
ConnStopErrDelivered ==     \* Run or the drainer took the error
  /\ pcConn = "stopErr" /\ ~errPending
  /\ pcConn' = "done" /\ Cancel
  /\ U(<<toRead, eof, rCh, hCh, oCh, errPending, pcReader, pcRun, drainer, errClosed, pcWriter, pcRLoop, pcSend, cause>>)
\* ---- handler loop ----
RunDispatch ==    \* one inbound message; its reply (if any) goes through the send path like a sender's
  /\ pcRun = "loop" /\ hCh > 0 /\ hCh' = hCh - 1
  /\ U(<<sock, toRead, eof, connCtx, hCtx, rCh, oCh, errPending, pcReader, pcConn, pcRun, drainer, errClosed, pcWriter, pcRLoop, pcSend, cause>>)
RunStops ==       \* context done, or an error arrives: the loop ends, the drainer starts, cancelFun runs
  /\ pcRun = "loop" /\ (hCtx \/ errPending)
  /\ pcRun' = "done" /\ drainer' = TRUE /\ errPending' = FALSE /\ hCh' = 0 /\ Cancel
  /\ U(<<toRead, eof, rCh, oCh, pcReader, pcConn, errClosed, pcWriter, pcRLoop, pcSend, cause>>)
Drain == /\ drainer /\ errPending /\ errPending' = FALSE
         /\ U(<<sock, toRead, eof, connCtx, hCtx, rCh, hCh, oCh, pcReader, pcConn, pcRun, drainer, errClosed, pcWriter, pcRLoop, pcSend, cause>>)
\* ---- writer loop ----
WriterStep ==
  /\ pcWriter = "loop"
  /\ \/ connCtx /\ pcWriter' = "done" /\ U(<<oCh, sock, hCtx, connCtx>>)
     \/ ~connCtx /\ oCh > 0 /\ oCh' = oCh - 1 /\ U(<<pcWriter, sock, hCtx, connCtx>>)
  /\ U(<<toRead, eof, rCh, hCh, errPending, pcReader, pcConn, pcRun, drainer, errClosed, pcRLoop, pcSend, cause>>)
\* ---- reader loop: conn.Reader() -> ServeIncoming ----
RLoopTake ==
  /\ pcRLoop = "loop"
  /\ \/ connCtx /\ pcRLoop' = "done" /\ U(<<rCh>>)
     \/ rCh > 0 /\ rCh' = rCh - 1 /\ pcRLoop' = "serve"
  /\ U(<<sock, toRead, eof, connCtx, hCtx, hCh, oCh, errPending, pcReader, pcConn, pcRun, drainer, errClosed, pcWriter, pcSend, cause>>)
RLoopServe ==
  /\ pcRLoop = "serve"
  /\ \/ pcRun = "loop" /\ hCh < CapH + 1 /\ hCh' = hCh + 1 /\ pcRLoop' = "loop"
     \/ pcRun = "done" /\ hCh < CapH /\ hCh' = hCh + 1 /\ pcRLoop' = "loop"
     \/ IncomingSendCtx /\ hCtx /\ pcRLoop' = "loop" /\ U(<<hCh>>)
  /\ U(<<sock, toRead, eof, connCtx, hCtx, rCh, oCh, errPending, pcReader, pcConn, pcRun, drainer, errClosed, pcWriter, pcSend, cause>>)
\* ---- application senders: Send -> sendRaw: select { out <- data ; <-h.ctx.Done() } ----
SendStart(p) == /\ pcSend[p] = "idle" /\ pcSend' = [pcSend EXCEPT ![p] = "send"]
                /\ U(<<sock, toRead, eof, connCtx, hCtx, rCh, hCh, oCh, errPending, pcReader, pcConn, pcRun, drainer, errClosed, pcWriter, pcRLoop, cause>>)
SendRaw(p) ==
  /\ pcSend[p] = "send"
  /\ \/ oCh < CapO + (IF pcWriter = "loop" /\ ~connCtx THEN 1 ELSE 0) /\ oCh' = oCh + 1
     \/ hCtx /\ U(<<oCh>>)
  /\ pcSend' = [pcSend EXCEPT ![p] = "done"]
  /\ U(<<sock, toRead, eof, connCtx, hCtx, rCh, hCh, errPending, pcReader, pcConn, pcRun, drainer, errClosed, pcWriter, pcRLoop, cause>>)
\* ---- eg.Wait returned: CloseErrorChan ends the drainer ----
AllGroupDone == pcConn = "done" /\ pcRun = "done" /\ pcWriter = "done" /\ pcRLoop = "done"
CloseErrors == /\ AllGroupDone /\ ~errClosed /\ errClosed' = TRUE /\ drainer' = FALSE
               /\ U(<<sock, toRead, eof, connCtx, hCtx, rCh, hCh, oCh, errPending, pcReader, pcConn, pcRun, pcWriter, pcRLoop, pcSend, cause>>)

LibNext == ReaderRead \/ ReaderSend \/ ConnServeReturn \/ ConnStopErrDelivered \/ RunDispatch \/ RunStops \/ Drain
             \/ WriterStep \/ RLoopTake \/ RLoopServe \/ CloseErrors \/ \E p \in Senders : SendRaw(p)

\* ---- causes (environment) ----
Fire(c) == cause = "none" /\ cause' = c
PeerClose   == /\ Fire("peer_close") /\ eof' = TRUE
               /\ U(<<sock, toRead, connCtx, hCtx, rCh, hCh, oCh, errPending, pcReader, pcConn, pcRun, drainer, errClosed, pcWriter, pcRLoop, pcSend>>)
LocalClose  == /\ Fire("local_close") /\ Cancel      \* Acceptor.Close / Initiator.Close
               /\ U(<<toRead, eof, rCh, hCh, oCh, errPending, pcReader, pcConn, pcRun, drainer, errClosed, pcWriter, pcRLoop, pcSend>>)
HandlerStop == /\ Fire("handler_stop") /\ hCtx' = TRUE
               /\ U(<<sock, toRead, eof, connCtx, rCh, hCh, oCh, errPending, pcReader, pcConn, pcRun, drainer, errClosed, pcWriter, pcRLoop, pcSend>>)
EnvNext == PeerClose \/ LocalClose \/ HandlerStop \/ \E p \in Senders : SendStart(p)

Next == LibNext \/ EnvNext
Spec == Init /\ [][Next]_vars

AllLibDone == /\ pcReader = "done" /\ AllGroupDone /\ ~drainer /\ errClosed
              /\ sock = "closed" /\ \A p \in Senders : pcSend[p] # "send"
\* once a cause fired, quiescence of the library means it has completely shut down
NoStuck == (cause # "none" /\ ~ENABLED LibNext) => AllLibDone
=============================================================================
