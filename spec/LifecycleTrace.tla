--------------------------- MODULE LifecycleTrace ---------------------------
(***************************************************************************)
(* Validation of fault-placement observations (harness/wirerig/lifecycle)  *)
(* against the terminal-state requirement of Lifecycle (C13): once a       *)
(* termination cause has fired and the bounded settling time has passed,   *)
(* the serving call has returned, the socket is closed, the side that did  *)
(* not initiate the termination was notified, pending and later sends have *)
(* returned, and no goroutine started by the library remains.              *)
(***************************************************************************)
EXTENDS Integers, Sequences, FiniteSets, TLC, Json

CONSTANT TraceFile
Trace == ndJsonDeserialize(TraceFile)
VARIABLE l

Rej(r, what) == PrintT("REJECT " \o ToJson(<<"C13", r.id, what,
                        [role |-> r.scenario.role, cause |-> r.scenario.cause, phase |-> r.scenario.phase,
                         inIn |-> r.scenario.inIn, inOut |-> r.scenario.inOut, buf |-> r.scenario.buf,
                         slowCb |-> r.scenario.slowCb, blockCb |-> r.scenario.blockCb, errStop |-> r.scenario.errStop, partial |-> r.scenario.partial, cause2 |-> r.scenario.cause2, leaked |-> r.leaked]>>)) /\ FALSE

\* causes initiated by the remote side or the transport: the local application must be told
RemoteCauses == {"peer_close", "peer_reset", "read_timeout", "write_error", "peer_stops_reading", "timer_disconnect"}

Check(r) ==
  /\ (r.reachedPhase \/ PrintT("SPECERR " \o ToJson(<<r.id, "scenario did not reach its phase">>)))
  /\ (r.serveReturned \/ Rej(r, "the serving call did not return"))
  /\ (r.sockClosed \/ Rej(r, "the socket was not closed"))
  /\ ((r.scenario.cause \in RemoteCauses => r.notified) \/ Rej(r, "no disconnect / stopped notification was delivered"))
  /\ (r.sendersDone \/ Rej(r, "a send call in progress when the connection ended never returned"))
  /\ (r.sendReturned \/ Rej(r, "a send call after the connection ended blocks"))
  /\ (r.leaked = <<>> \/ Rej(r, "goroutines started by the library remain after the settling time"))

Init == l = 1
Next == l <= Len(Trace) /\ (Check(Trace[l]) \in BOOLEAN) /\ l' = l + 1
Spec == Init /\ [][Next]_l
TraceAccepted == TLCGet("stats").diameter = Len(Trace) + 1
=============================================================================
