----------------------------- MODULE MCDecoder -----------------------------
(***************************************************************************)
(* Every byte string over the alphabet {SOH, '=', '1', '0', '9', '-'}       *)
(* up to MaxLen, raw and wrapped by the specification in a correct         *)
(* BeginString / BodyLength / CheckSum (so that it passes the integrity    *)
(* check and reaches field and group parsing), against the transcribed     *)
(* decoder: no slice out of bounds, no non-termination, and the places     *)
(* where the implemented algorithm differs from the field-boundary         *)
(* semantics of FixWire.  Each string is printed for replay on the real    *)
(* decoder ("RAW <json>").                                                 *)
(***************************************************************************)
EXTENDS Decoder, Json

CONSTANTS MaxLen, Slice_, Of_

Alpha == <<SOH, EQ, 49, 48, 57, MINUS>>
K == Len(Alpha)
T == [bs |-> <<48>>, bl |-> <<57>>, mt |-> <<49, 49>>, cs |-> <<49, 48>>]   \* "0" "9" "11" "10"
LookupTags == {<<49>>, <<49, 48>>, <<48>>, <<57>>, <<49, 49>>, <<57, 49>>}
GroupTag == <<49>>

RECURSIVE Pow(_, _), StrOf(_, _)
Pow(b, e) == IF e = 0 THEN 1 ELSE b * Pow(b, e - 1)
\* the idx-th string of length n (0-based)
StrOf(idx, n) == IF n = 0 THEN <<>> ELSE <<Alpha[(idx % K) + 1]>> \o StrOf(idx \div K, n - 1)
\* strings are numbered length by length
RECURSIVE Decode(_, _)
Decode(idx, n) == IF idx < Pow(K, n) THEN StrOf(idx, n) ELSE Decode(idx - Pow(K, n), n + 1)
RECURSIVE Total(_)
Total(n) == IF n < 0 THEN 0 ELSE Pow(K, n) + Total(n - 1)
N == Total(MaxLen)

\* the payload wrapped in a correct frame
Frame(p) ==
  LET pre == T.bs \o <<EQ, 70, SOH>> \o T.bl \o <<EQ>> \o Dec(Len(p)) \o <<SOH>> \o p
  IN pre \o T.cs \o <<EQ>> \o Pad3(SumTo(pre, Len(pre)) % 256) \o <<SOH>>

VARIABLE i
Blocks == 64
Init == i = -1
Next == \/ i = -1 /\ i' \in {0 - (b + 1) : b \in 1..Blocks}
        \/ i < -1 /\ i' \in {j \in 0..(N - 1) : j % Blocks = (0 - i) - 2 /\ j % Of_ = Slice_ % Of_}
Spec == Init /\ [][Next]_i

Fail(what, x) == PrintT("MODEL-FAIL " \o what \o " " \o ToJson(x)) /\ FALSE

Inv ==
  i >= 0 =>
    LET x == Decode(i, 0)
        f == Frame(x)
        vx == ValidateRaw(x, T)
        vf == ValidateRaw(f, T)
    IN \* no slice out of bounds, no runaway loop: on the raw string and on the framed one
       /\ ((\A t \in LookupTags : ~ValueByTag(x, t).oob /\ ~ScanKeyValue(x, t).oob /\ ~ValueByTag(f, t).oob /\ ~ScanKeyValue(f, t).oob)
             \/ Fail("OOB lookup", x))
       /\ ((~GroupSplit(x, GroupTag).oob /\ ~GroupSplit(f, GroupTag).oob) \/ Fail("OOB group", x))
       /\ ((~vx.oob /\ ~vf.oob) \/ Fail("OOB validateRaw", x))
       \* lookups are boundary based on well-formed messages (C18)
       \* (a tag occupies one position: with a repeated tag ValueByTag prefers the first delimiter-anchored
       \*  occurrence over the field at the very start of the message -- noted, outside the domain of C18)
       /\ ((\A t \in LookupTags : (Agrees(f, T) /\ (\A j \in 1..Len(FieldRecs(f)) : FieldRecs(f)[j].hasEq)
                                      /\ Cardinality({j \in 1..Len(FieldsOf(f)) : FieldsOf(f)[j][1] = t}) <= 1) =>
              LET a == ValueByTag(f, t)
                  e == Lookup(FieldsOf(f), t)
              IN a.found = e.found /\ (e.found => a.val = e.val))
             \/ Fail("lookup differs from the field-boundary semantics", x))
       /\ PrintT("RAW " \o ToJson([id |-> "tlc-raw-" \o ToString(i), input |-> x, framed |-> f,
                                   implValid |-> vx.res = "ok", specValid |-> Agrees(x, T),
                                   implValidFramed |-> vf.res = "ok", specValidFramed |-> Agrees(f, T)]))
=============================================================================
