----------------------------- MODULE MCDispatch -----------------------------
(* Enumerates handler configurations (registration orders, accept/refuse scripts, save failures)   *)
(* and checks on the model what C19 states; every configuration is printed as a scenario.          *)
EXTENDS Dispatch, Json

CONSTANTS MaxHandlers, MaxFail

OutOpts == [id : {0}, dir : {"out"}, ty : {"ALL", "V", "0"}, accept : BOOLEAN, when : {"pre", "post"}, mutate : BOOLEAN]
InOpts  == [id : {0}, dir : {"in"},  ty : {"ALL", "1", "D"}, accept : BOOLEAN, when : {"post"}, mutate : {FALSE}]

VARIABLES hs, failAt
vars == <<hs, failAt>>
Init == hs = <<>> /\ failAt \in 0..MaxFail
Next == /\ Len(hs) < MaxHandlers
        /\ \E h \in OutOpts \cup InOpts : hs' = Append(hs, [h EXCEPT !.id = Len(hs) + 1])
        /\ UNCHANGED failAt
Spec == Init /\ [][Next]_vars

Types == {"V", "0"}
\* a refusal or a failed save means: not transmitted; and the other way round
InvRefusal == \A ty \in Types : \A ok \in BOOLEAN :
   Transmitted(hs, ty, ok) <=> (ok /\ \A h \in {hs[j] : j \in 1..Len(hs)} : (h.dir = "out" /\ h.ty \in {"ALL", ty}) => h.accept)
\* calls: all-types handlers before type handlers, each list in registration order, nothing after a refusal
InvOrder == \A ty \in Types :
   LET c == OutCalls(hs, ty, TRUE)
   IN /\ \A j \in 1..(Len(c) - 1) : c[j].accept
      /\ \A j, k \in 1..Len(c) : (j < k) => ~(c[j].ty = ty /\ c[k].ty = "ALL")
      /\ \A j, k \in 1..Len(c) : (j < k /\ c[j].ty = c[k].ty /\ c[j].when = c[k].when) => c[j].id < c[k].id
      /\ \A j, k \in 1..Len(c) : (j < k /\ c[j].ty = c[k].ty) => ~(c[j].when = "post" /\ c[k].when = "pre")
EmitScn == PrintT("SCN " \o ToJson([handlers |-> hs, saveFailAt |-> failAt]))
=============================================================================
