----------------------------- MODULE MCFixWire -----------------------------
(***************************************************************************)
(* Exhaustive small-scope model of the codec properties on FixWire.        *)
(* Every initial state is one case: a template (field / component /        *)
(* repeating group, nested up to depth 3), a population of it and values   *)
(* drawn from small per-type sets that contain the adversarial texts       *)
(* ("=", "t=" for template tags t, digits) over tags in decimal suffix /   *)
(* prefix relation (14, 146, 1146, 46, 6).  TLC checks on every case       *)
(*   - the constructive and the declarative definition agree (C01),        *)
(*   - the wire field list is framing + populated leaves (C17),            *)
(*   - the reference parser inverts the encoder (C02, C18),                *)
(*   - exactly which one-byte damages keep the integrity relation (C03),   *)
(* and prints each case as JSON; the cases are then replayed on the real   *)
(* encoder/decoder (harness/cmd/wiredrv -mode replay) and the recorded     *)
(* observations validated by FixWireTrace.                                 *)
(***************************************************************************)
EXTENDS FixWire, Json

CONSTANTS Family,      \* which template family this run enumerates
          Slice, Of    \* keep cases whose index % Of = Slice (quick tier); Of = 1 keeps all

D(n) == Dec(n)
T(s) == s              \* tags are written as byte sequences below

tag14   == <<49, 52>>
tag146  == <<49, 52, 54>>
tag1146 == <<49, 49, 52, 54>>
tag46   == <<52, 54>>
tag6    == <<54>>
tag55   == <<53, 53>>
tag5    == <<53>>
tag34   == <<51, 52>>
tag4    == <<52>>
tag100  == <<49, 48, 48>>
tag110  == <<49, 49, 48>>
tag93   == <<57, 51>>

StdTags == [bs |-> <<56>>, bl |-> <<57>>, mt |-> <<51, 53>>, cs |-> <<49, 48>>]
AltTags == [bs |-> <<49, 48, 48, 56>>, bl |-> <<49, 48, 48, 57>>, mt |-> <<49, 48, 51, 53>>, cs |-> <<49, 48, 49, 48>>]

KV(tag, ty)        == [k |-> "kv", tag |-> tag, ty |-> ty, pop |-> FALSE, txt |-> <<>>, via |-> "set"]
GRP(tag, tmpl)     == [k |-> "grp", tag |-> tag, tmpl |-> tmpl, entries |-> <<>>]
CMP(items)         == [k |-> "cmp", items |-> items]

\* value lists (canonical text); they contain texts that resemble fields of the templates below
Vals(ty) ==
  CASE ty = "string" -> << <<65>>,                          \* A
                           <<61>>,                          \* =
                           <<49, 48, 61, 49>>,              \* 10=1
                           <<54, 61, 50>>,                  \* 6=2   (count tag of a group / suffix of 146)
                           <<88, 49, 52, 54, 61, 55>>,      \* X146=7
                           <<54, 61, 54, 61, 50>>,          \* 6=6=2  (the text twice in a row)
                           <<49, 52, 54, 61, 49, 52, 54, 61, 55>> >>  \* 146=146=7 (also: a value of tag 1146 that starts with "146=")
    [] ty = "int"    -> << <<48>>, <<45, 51>>, <<49, 52, 54>> >>   \* 0 -3 146
    [] ty = "bool"   -> << <<89>>, <<78>> >>
    [] ty = "raw"    -> << <<2>>, <<53, 61>> >>                     \* 0x02, "5="

(***************************************************************************)
(* Populations are indexed arithmetically (mixed radix) instead of being   *)
(* built as sets: Count(x) is the number of populations of x and Nth(x, k) *)
(* the k-th one (0-based).  force = TRUE: the first leaf must be populated *)
(* (first field of a group entry).  Groups take 0..MaxEntries entries.     *)
(***************************************************************************)
MaxEntries == 2
RECURSIVE CountItems(_, _), NthItems(_, _, _), Pow(_, _)
Pow(b, e) == IF e = 0 THEN 1 ELSE b * Pow(b, e - 1)
RECURSIVE SumPow(_, _)
SumPow(b, e) == IF e = 0 THEN 1 ELSE Pow(b, e) + SumPow(b, e - 1)   \* 1 + b + ... + b^e

CountNode(n, force) ==
  CASE n.k = "kv"  -> Len(Vals(n.ty)) + (IF force THEN 0 ELSE 1)
    [] n.k = "grp" -> SumPow(CountItems(n.tmpl, TRUE), MaxEntries) - (IF force THEN 1 ELSE 0)
    [] n.k = "cmp" -> CountItems(n.items, force)
CountItems(items, force) ==
  IF items = <<>> THEN 1 ELSE CountNode(Head(items), force) * CountItems(Tail(items), FALSE)

\* the k-th sequence of exactly len entries (each entry one of E populations)
RECURSIVE NthEntries(_, _, _, _)
NthEntries(tmpl, E, len, k) ==
  IF len = 0 THEN <<>>
  ELSE <<NthItems(tmpl, TRUE, k % E)>> \o NthEntries(tmpl, E, len - 1, k \div E)
\* the k-th entry sequence of any length 0..MaxEntries: lengths in increasing order
RECURSIVE NthSeq(_, _, _, _)
NthSeq(tmpl, E, len, k) ==
  IF k < Pow(E, len) THEN NthEntries(tmpl, E, len, k) ELSE NthSeq(tmpl, E, len + 1, k - Pow(E, len))

NthNode(n, force, k) ==
  CASE n.k = "kv"  -> IF ~force /\ k = 0 THEN n
                      ELSE [n EXCEPT !.pop = TRUE, !.txt = Vals(n.ty)[IF force THEN k + 1 ELSE k]]
    [] n.k = "grp" -> [n EXCEPT !.entries = NthSeq(n.tmpl, CountItems(n.tmpl, TRUE), 0, IF force THEN k + 1 ELSE k)]
    [] n.k = "cmp" -> [n EXCEPT !.items = NthItems(n.items, force, k)]
NthItems(items, force, k) ==
  IF items = <<>> THEN <<>>
  ELSE LET c == CountNode(Head(items), force)
       IN <<NthNode(Head(items), force, k % c)>> \o NthItems(Tail(items), FALSE, k \div c)

Bodies ==
  CASE Family = "flat"   -> << <<>>,
                               <<KV(tag146, "string")>>,
                               <<KV(tag14, "int"), KV(tag146, "string"), KV(tag1146, "bool")>>,
                               <<KV(tag46, "raw"), KV(tag6, "string")>> >>
    [] Family = "group"  -> << <<GRP(tag6, <<KV(tag146, "string"), KV(tag14, "int")>>)>>,
                               <<KV(tag1146, "string"), GRP(tag46, <<KV(tag6, "int")>>), KV(tag14, "bool")>> >>
    [] Family = "nested" -> << <<GRP(tag6, <<KV(tag146, "int"), GRP(tag46, <<KV(tag14, "string")>>)>>)>>,
                               <<CMP(<<KV(tag14, "int"), GRP(tag6, <<CMP(<<KV(tag146, "string")>>), KV(tag46, "bool")>>)>>), KV(tag1146, "int")>> >>
    [] Family = "parts"  -> << <<KV(tag146, "string")>> >>

Headers ==
  CASE Family = "parts" -> << <<>>, <<KV(tag34, "int")>>, <<KV(tag34, "int"), GRP(tag5, <<KV(tag55, "string")>>)>> >>
    [] Family = "nested" -> << <<>> >>
    [] OTHER -> << <<>>, <<KV(tag34, "int")>> >>
Trailers ==
  CASE Family = "parts" -> << <<>>, <<KV(tag93, "string")>> >>
    [] OTHER -> << <<>> >>
TagSets == IF Family \in {"parts", "flat"} THEN <<StdTags, AltTags>> ELSE <<StdTags>>
MsgTypes == IF Family = "nested" THEN << <<48>> >> ELSE << <<48>>, <<65, 69>> >>

\* a "shape" is a choice of (tag set, msg type, header, body, trailer templates); shapes are
\* laid out one after the other, each with Count = product of its parts' population counts
Shapes == [tg : 1..Len(TagSets), mt : 1..Len(MsgTypes), h : 1..Len(Headers), b : 1..Len(Bodies), t : 1..Len(Trailers)]
ShapeSeq == SetToSeq(Shapes)
ShapeCount(sh) == CountItems(Headers[sh.h], FALSE) * CountItems(Bodies[sh.b], FALSE) * CountItems(Trailers[sh.t], FALSE)
RECURSIVE OffList(_)
\* OffList(j)[x] = number of cases of shapes 1..x, as a concrete tuple (evaluated once)
OffList(j) == IF j = 0 THEN <<>>
              ELSE LET p == OffList(j - 1)
                   IN Append(p, (IF j = 1 THEN 0 ELSE p[j - 1]) + ShapeCount(ShapeSeq[j]))
OffsetSeq == OffList(Len(ShapeSeq))
N == IF Len(ShapeSeq) = 0 THEN 0 ELSE OffsetSeq[Len(ShapeSeq)]

CaseAt(idx) ==   \* idx in 1..N
  LET j == CHOOSE x \in 1..Len(ShapeSeq) : idx <= OffsetSeq[x] /\ (x = 1 \/ idx > OffsetSeq[x - 1])
      sh == ShapeSeq[j]
      k == idx - 1 - (IF j = 1 THEN 0 ELSE OffsetSeq[j - 1])
      ch == CountItems(Headers[sh.h], FALSE)
      cb == CountItems(Bodies[sh.b], FALSE)
  IN [tags |-> TagSets[sh.tg], beginString |-> <<70, 73, 88>>, msgType |-> MsgTypes[sh.mt],
      header  |-> NthItems(Headers[sh.h], FALSE, k % ch),
      body    |-> NthItems(Bodies[sh.b], FALSE, (k \div ch) % cb),
      trailer |-> NthItems(Trailers[sh.t], FALSE, k \div (ch * cb))]

Idx == {x \in 1..N : x % Of = Slice % Of}

VARIABLE i
\* i = 0: root; i < 0: head of block -i; i > 0: case i.  The two-level fan-out lets every
\* TLC worker enumerate (and check) its own block of cases in parallel.
Blocks == 64
Init == i = 0
Next == \/ i = 0 /\ i' \in {0 - b : b \in 1..Blocks}
        \/ i < 0 /\ i' \in {j \in Idx : j % Blocks = (0 - i) - 1}
Spec == Init /\ [][Next]_i

Blank(m) == [m EXCEPT !.header = BlankItems(m.header), !.body = BlankItems(m.body),
                      !.trailer = BlankItems(m.trailer)]
Fail(what, c) == PrintT("MODEL-FAIL " \o what \o " " \o ToJson(c)) /\ FALSE

\* C01: the constructive definition satisfies the declarative one
\* C17: the wire field list is framing + populated leaves
\* C02 / C18: the reference parser inverts the encoder whatever look-alike text values contain
\* C18: lookups are boundary based
\* and the case is printed as JSON for replay on the real code
InvCase ==
  i > 0 =>
    LET c == CaseAt(i)
        w == Wire(c)
        AF == AllFields(c)
        FW == FieldsOf(w)
        FS == {AF[j] : j \in 1..Len(AF)}
        p == RefParse(Blank(c), w)
    IN /\ (Framed(w, c.tags) \/ Fail("Framed", c))
       /\ (FW = AF \/ Fail("Fields", c))
       /\ ((WellFormedTemplate(c) /\ WellFormedPop(c)) => ((SameContent(p, c) /\ Wire(p) = w) \/ Fail("RoundTrip", c)))
       /\ ((\A f \in FS : (\A g \in FS : g[1] = f[1] => g = f)
                              => Lookup(FW, f[1]) = [found |-> TRUE, val |-> f[2]]) \/ Fail("Lookup", c))
       /\ PrintT("CASE " \o ToJson([id |-> "tlc-" \o Family \o "-" \o ToString(i), m |-> c,
                                     lookalike |-> TRUE,
                                     lookups |-> {AF[j][1] : j \in 1..Len(AF)}
                                                   \cup {tag4, tag6, tag46, tag146, tag100}]))

\* C03 on the model: one-byte damages over the model alphabet
Alphabet == {0, SOH, EQ, 48, 49, 54, 65}
Subst(s) == {[s EXCEPT ![p] = b] : p \in 1..Len(s), b \in Alphabet} \ {s}
Insert(s) == {SubSeq(s, 1, p) \o <<b>> \o SubSeq(s, p + 1, Len(s)) : p \in 1..(Len(s) - 1), b \in Alphabet}
Delete(s) == {SubSeq(s, 1, p - 1) \o SubSeq(s, p + 1, Len(s)) : p \in 1..Len(s)}
ProperPrefixes(s) == {SubSeq(s, 1, p) : p \in 0..(Len(s) - 1)}
Damages(s) == Subst(s) \cup Insert(s) \cup Delete(s) \cup ProperPrefixes(s)

\* the only damage the BodyLength/CheckSum scheme cannot see: a NUL byte inserted into
\* the BeginString value (not covered by BodyLength, contributes 0 to the sum)
NulInBeginString(d, s, c) ==
  /\ Len(d) = Len(s) + 1
  /\ \E p \in (Len(c.tags.bs) + 1)..(Len(c.tags.bs) + 1 + Len(c.beginString)) :
       d = SubSeq(s, 1, p) \o <<0>> \o SubSeq(s, p + 1, Len(s))
InvDamage == i > 0 => LET c == CaseAt(i)
                          w == Wire(c)
                      IN \A d \in Damages(w) : Agrees(d, c.tags) => NulInBeginString(d, w, c)

=============================================================================
