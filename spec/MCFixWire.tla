----------------------------- MODULE MCFixWire -----------------------------
(***************************************************************************)
(* Exhaustive small-scope model of the codec properties on FixWire.        *)
(* Every initial state is one case: a template (field / component /        *)
(* repeating group, nested up to depth 3), a population of it and values   *)
(* drawn from small per-type sets that contain the adversarial texts       *)
(* ("=", "t=" for template tags t, digits) over tags in decimal suffix /   *)
(* prefix relation (14, 146, 1146, 46, 6).  TLC checks on every case       *)
(*   - the constructive and the declarative definition agree (C01),        *)
(*   - the wire field list is framing + populated leaves (C17),            *)
(*   - the reference parser inverts the encoder (C02, C18),                *)
(*   - exactly which one-byte damages keep the integrity relation (C03),   *)
(* and prints each case as JSON; the cases are then replayed on the real   *)
(* encoder/decoder (harness/cmd/wiredrv -mode replay) and the recorded     *)
(* observations validated by FixWireTrace.                                 *)
(***************************************************************************)
EXTENDS FixWire, Json

CONSTANTS Family,      \* which template family this run enumerates
          Slice, Of    \* keep cases whose index % Of = Slice (quick tier); Of = 1 keeps all

D(n) == Dec(n)
T(s) == s              \* tags are written as byte sequences below

tag14   == <<49, 52>>
tag146  == <<49, 52, 54>>
tag1146 == <<49, 49, 52, 54>>
tag46   == <<52, 54>>
tag6    == <<54>>
tag55   == <<53, 53>>
tag5    == <<53>>
tag34   == <<51, 52>>
tag4    == <<52>>
tag100  == <<49, 48, 48>>
tag110  == <<49, 49, 48>>
tag93   == <<57, 51>>

StdTags == [bs |-> <<56>>, bl |-> <<57>>, mt |-> <<51, 53>>, cs |-> <<49, 48>>]
AltTags == [bs |-> <<49, 48, 48, 56>>, bl |-> <<49, 48, 48, 57>>, mt |-> <<49, 48, 51, 53>>, cs |-> <<49, 48, 49, 48>>]

KV(tag, ty)        == [k |-> "kv", tag |-> tag, ty |-> ty, pop |-> FALSE, txt |-> <<>>, via |-> "set"]
GRP(tag, tmpl)     == [k |-> "grp", tag |-> tag, tmpl |-> tmpl, entries |-> <<>>]
CMP(items)         == [k |-> "cmp", items |-> items]

\* value sets (canonical text); "look" = texts that resemble fields of the templates below
Vals(ty) ==
  CASE ty = "string" -> { <<65>>,                          \* A
                          <<61>>,                          \* =
                          <<49, 48, 61, 49>>,              \* 10=1
                          <<54, 61, 50>>,                  \* 6=2   (count tag of a group / suffix of 146)
                          <<88, 49, 52, 54, 61, 55>> }     \* X146=7
    [] ty = "int"    -> { <<48>>, <<45, 51>>, <<49, 52, 54>> }   \* 0 -3 146
    [] ty = "bool"   -> { <<89>>, <<78>> }
    [] ty = "raw"    -> { <<1 + 1>>, <<53, 61>> }                 \* 0x02, "5="

\* all populations of an item list; first = TRUE forces the first leaf to be populated
RECURSIVE PopItems(_, _)
RECURSIVE PopEntries(_, _)
PopNode(n, force) ==
  CASE n.k = "kv"  -> {[n EXCEPT !.pop = TRUE, !.txt = v] : v \in Vals(n.ty)}
                        \cup (IF force THEN {} ELSE {n})
    [] n.k = "grp" -> {[n EXCEPT !.entries = es] : es \in PopEntries(n.tmpl, 2)}
                        \ (IF force THEN {n} ELSE {})
    [] n.k = "cmp" -> {[n EXCEPT !.items = its] : its \in PopItems(n.items, force)}
PopItems(items, force) ==
  IF items = <<>> THEN {<<>>}
  ELSE {<<h>> \o t : h \in PopNode(Head(items), force), t \in PopItems(Tail(items), FALSE)}
\* sequences of 0..max entries
PopEntries(tmpl, max) ==
  IF max = 0 THEN {<<>>}
  ELSE {<<>>} \cup {<<e>> \o r : e \in PopItems(tmpl, TRUE), r \in PopEntries(tmpl, max - 1)}

Bodies ==
  CASE Family = "flat"   -> { <<>>,
                              <<KV(tag146, "string")>>,
                              <<KV(tag14, "int"), KV(tag146, "string"), KV(tag1146, "bool")>>,
                              <<KV(tag46, "raw"), KV(tag6, "string")>> }
    [] Family = "group"  -> { <<GRP(tag6, <<KV(tag146, "string"), KV(tag14, "int")>>)>>,
                              <<KV(tag1146, "string"), GRP(tag46, <<KV(tag6, "int")>>), KV(tag14, "bool")>> }
    [] Family = "nested" -> { <<GRP(tag6, <<KV(tag146, "int"), GRP(tag46, <<KV(tag14, "string")>>)>>)>>,
                              <<CMP(<<KV(tag14, "int"), GRP(tag6, <<CMP(<<KV(tag146, "string")>>), KV(tag46, "bool")>>)>>), KV(tag1146, "int")>> }
    [] Family = "parts"  -> { <<KV(tag146, "string")>> }

Headers ==
  CASE Family = "parts" -> { <<>>, <<KV(tag34, "int")>>, <<KV(tag34, "int"), GRP(tag5, <<KV(tag55, "string")>>)>> }
    [] OTHER -> { <<>>, <<KV(tag34, "int")>> }
Trailers ==
  CASE Family = "parts" -> { <<>>, <<KV(tag93, "string")>> }
    [] OTHER -> { <<>> }
TagSets == IF Family \in {"parts", "flat"} THEN {StdTags, AltTags} ELSE {StdTags}

AllCases ==
  { [tags |-> tg, beginString |-> <<70, 73, 88>>, msgType |-> mt, header |-> h, body |-> b, trailer |-> t] :
      tg \in TagSets, mt \in {<<48>>, <<65, 69>>},
      h \in UNION {PopItems(x, FALSE) : x \in Headers},
      b \in UNION {PopItems(x, FALSE) : x \in Bodies},
      t \in UNION {PopItems(x, FALSE) : x \in Trailers} }

CaseSeq == SetToSeq(AllCases)
N == Len(CaseSeq)
Idx == {i \in 1..N : i % Of = Slice % Of}

VARIABLE i
\* i = 0: root; i < 0: head of block -i; i > 0: case i.  The two-level fan-out lets every
\* TLC worker enumerate (and check) its own block of cases in parallel.
Blocks == 64
Init == i = 0
Next == \/ i = 0 /\ i' \in {0 - b : b \in 1..Blocks}
        \/ i < 0 /\ i' \in {j \in Idx : j % Blocks = (0 - i) - 1}
Spec == Init /\ [][Next]_i

c == CaseSeq[i]

Blank(m) == [m EXCEPT !.header = BlankItems(m.header), !.body = BlankItems(m.body),
                      !.trailer = BlankItems(m.trailer)]
Fail(what) == PrintT("MODEL-FAIL " \o what \o " " \o ToJson(c)) /\ FALSE

\* C01: the constructive definition satisfies the declarative one
\* C17: the wire field list is framing + populated leaves
\* C02 / C18: the reference parser inverts the encoder whatever look-alike text values contain
\* C18: lookups are boundary based
InvCase ==
  i > 0 =>
    LET w == Wire(c)
        AF == AllFields(c)
        FS == {AF[j] : j \in 1..Len(AF)}
        p == RefParse(Blank(c), w)
    IN /\ (Framed(w, c.tags) \/ Fail("Framed"))
       /\ (FieldsOf(w) = AF \/ Fail("Fields"))
       /\ ((WellFormedTemplate(c) /\ WellFormedPop(c)) => ((SameContent(p, c) /\ Wire(p) = w) \/ Fail("RoundTrip")))
       /\ ((\A f \in FS : (\A g \in FS : g[1] = f[1] => g = f)
                              => Lookup(FieldsOf(w), f[1]) = [found |-> TRUE, val |-> f[2]]) \/ Fail("Lookup"))

\* C03 on the model: one-byte damages over the model alphabet
Alphabet == {0, SOH, EQ, 48, 49, 54, 65}
Subst(s) == {[s EXCEPT ![p] = b] : p \in 1..Len(s), b \in Alphabet} \ {s}
Insert(s) == {SubSeq(s, 1, p) \o <<b>> \o SubSeq(s, p + 1, Len(s)) : p \in 1..(Len(s) - 1), b \in Alphabet}
Delete(s) == {SubSeq(s, 1, p - 1) \o SubSeq(s, p + 1, Len(s)) : p \in 1..Len(s)}
ProperPrefixes(s) == {SubSeq(s, 1, p) : p \in 0..(Len(s) - 1)}
Damages(s) == Subst(s) \cup Insert(s) \cup Delete(s) \cup ProperPrefixes(s)

\* the only damage the BodyLength/CheckSum scheme cannot see: a NUL byte inserted into
\* the BeginString value (not covered by BodyLength, contributes 0 to the sum)
NulInBeginString(d, s) ==
  /\ Len(d) = Len(s) + 1
  /\ \E p \in (Len(c.tags.bs) + 1)..(Len(c.tags.bs) + 1 + Len(c.beginString)) :
       d = SubSeq(s, 1, p) \o <<0>> \o SubSeq(s, p + 1, Len(s))
InvDamage == i > 0 => LET w == Wire(c) IN \A d \in Damages(w) : Agrees(d, c.tags) => NulInBeginString(d, w)

\* emission of the case for replay on the real code (always TRUE)
Emit == i > 0 => PrintT("CASE " \o ToJson([id |-> "tlc-" \o Family \o "-" \o ToString(i), m |-> c,
                                   lookalike |-> TRUE,
                                   lookups |-> {AllFields(c)[j][1] : j \in 1..Len(AllFields(c))}
                                                 \cup {tag4, tag6, tag46, tag146, tag100}]))
=============================================================================
