----------------------------- MODULE MCFraming -----------------------------
(* All partitions of a stream of small messages (values containing "10=", tags 110 / 210) into    *)
(* read chunks, two connections, reader and hand-off channels of capacity 0..1: what each handler *)
(* is given is a prefix of what its own peer sent.                                                 *)
EXTENDS Framing

CONSTANTS Conns, Cap

\* "8=F|35=0|58=10=|10=000|"  "8=F|35=A|110=2|10=111|"  "8=F|35=0|210=10=|10=222|"
M1 == <<56, 61, 70, 1, 51, 53, 61, 48, 1, 53, 56, 61, 49, 48, 61, 1, 49, 48, 61, 48, 48, 48, 1>>
M2 == <<56, 61, 70, 1, 51, 53, 61, 65, 1, 49, 49, 48, 61, 50, 1, 49, 48, 61, 49, 49, 49, 1>>
M3 == <<56, 61, 70, 1, 51, 53, 61, 48, 1, 50, 49, 48, 61, 49, 48, 61, 1, 49, 48, 61, 50, 50, 50, 1>>
Sent(c) == IF c = 1 THEN <<M1, M2, M3>> ELSE <<M2, M3>>
Stream(c) == Concat(Sent(c))

VARIABLES pos,       \* pos[c]: bytes of the stream the transport has delivered so far
          rbuf,      \* bytes read from the socket, not yet consumed by ReadBytes
          partial,   \* segments of the message being assembled
          readerCh,  \* Conn.reader channel
          incoming,  \* handler's incoming channel
          delivered  \* messages given to the handler callbacks
vars == <<pos, rbuf, partial, readerCh, incoming, delivered>>

Init == /\ pos = [c \in Conns |-> 0] /\ rbuf = [c \in Conns |-> <<>>] /\ partial = [c \in Conns |-> <<>>]
        /\ readerCh = [c \in Conns |-> <<>>] /\ incoming = [c \in Conns |-> <<>>] /\ delivered = [c \in Conns |-> <<>>]

\* the transport hands over the next n bytes (any cut: all partitions)
Chunk(c) == \E n \in 1..(Len(Stream(c)) - pos[c]) :
              /\ rbuf' = [rbuf EXCEPT ![c] = rbuf[c] \o SubSeq(Stream(c), pos[c] + 1, pos[c] + n)]
              /\ pos' = [pos EXCEPT ![c] = pos[c] + n]
              /\ UNCHANGED <<partial, readerCh, incoming, delivered>>
\* ReadBytes(SOH): one delimiter-terminated segment; a CheckSum segment completes the message,
\* which is sent on the reader channel (blocks while the channel is full)
Segment(c) == \E i \in 1..Len(rbuf[c]) :
                /\ rbuf[c][i] = SOH /\ \A j \in 1..(i - 1) : rbuf[c][j] # SOH
                /\ LET seg == SubSeq(rbuf[c], 1, i)
                       cur == partial[c] \o seg
                   IN IF IsEnd(seg)
                      THEN /\ Len(readerCh[c]) <= Cap
                           /\ readerCh' = [readerCh EXCEPT ![c] = Append(readerCh[c], cur)]
                           /\ partial' = [partial EXCEPT ![c] = <<>>]
                      ELSE /\ partial' = [partial EXCEPT ![c] = cur] /\ UNCHANGED readerCh
                /\ rbuf' = [rbuf EXCEPT ![c] = SubSeq(rbuf[c], i + 1, Len(rbuf[c]))]
                /\ UNCHANGED <<pos, incoming, delivered>>
\* reader loop: conn.Reader() -> handler.ServeIncoming
HandOff(c) == /\ readerCh[c] # <<>> /\ Len(incoming[c]) <= Cap
              /\ incoming' = [incoming EXCEPT ![c] = Append(incoming[c], Head(readerCh[c]))]
              /\ readerCh' = [readerCh EXCEPT ![c] = Tail(readerCh[c])]
              /\ UNCHANGED <<pos, rbuf, partial, delivered>>
\* handler loop: dispatch one message at a time
Dispatch(c) == /\ incoming[c] # <<>>
               /\ delivered' = [delivered EXCEPT ![c] = Append(delivered[c], Head(incoming[c]))]
               /\ incoming' = [incoming EXCEPT ![c] = Tail(incoming[c])]
               /\ UNCHANGED <<pos, rbuf, partial, readerCh>>
Next == \E c \in Conns : Chunk(c) \/ Segment(c) \/ HandOff(c) \/ Dispatch(c)
Spec == Init /\ [][Next]_vars

IsPrefixOf(p, q) == Len(p) <= Len(q) /\ SubSeq(q, 1, Len(p)) = p
\* each message once, whole, byte-identical, in order, only this connection's
DeliveredPrefix == \A c \in Conns : IsPrefixOf(delivered[c] \o incoming[c] \o readerCh[c], Sent(c))
\* nothing is lost or invented on the way
Conservation == \A c \in Conns :
   Concat(delivered[c] \o incoming[c] \o readerCh[c]) \o partial[c] \o rbuf[c] = SubSeq(Stream(c), 1, pos[c])
AllDelivered == \A c \in Conns : (pos[c] = Len(Stream(c)) /\ ~ENABLED (Segment(c) \/ HandOff(c) \/ Dispatch(c))) => delivered[c] = Sent(c)
FunctionalForm == \A c \in Conns : Messages(Stream(c)) = Sent(c)
=============================================================================
