----------------------------- MODULE MCGenerator -----------------------------
(***************************************************************************)
(* Schemas reachable from a base mini-schema by edit actions (remove,      *)
(* reorder, toggle 'required', duplicate a field number / message type).   *)
(* TLC checks the internal consistency of Generator's declarations on      *)
(* every reachable schema and prints the edit script of each one; the      *)
(* harness applies the same scripts to the shipped XML schemas and runs    *)
(* the real generator on the results.                                      *)
(***************************************************************************)
EXTENDS Generator, Json

CONSTANT MaxEdits

F(n, req) == [kind |-> "field", name |-> n, required |-> req, excluded |-> n \in {"BeginString", "BodyLength", "MsgType", "CheckSum"},
              decl |-> n, fixType |-> "String", goType |-> "string"]
G(n, req) == [kind |-> "group", name |-> n, required |-> req, excluded |-> FALSE, decl |-> n \o "Grp", fixType |-> "", goType |-> "*" \o n \o "Grp"]
C(n, req) == [kind |-> "component", name |-> n, required |-> req, excluded |-> FALSE, decl |-> n, fixType |-> "", goType |-> "*" \o n]

Base == [enums |-> <<>>, fields |-> << <<"BeginString", "8">>, <<"BodyLength", "9">>, <<"MsgType", "35">>, <<"CheckSum", "10">>,
                       <<"A", "1">>, <<"B", "2">>, <<"NoG", "3">>, <<"D", "4">> >>,
         owners |-> << [name |-> "Header", kind |-> "header", msgType |-> "", skipExcluded |-> TRUE,
                        members |-> <<F("BeginString", TRUE), F("BodyLength", TRUE), F("MsgType", TRUE), F("A", TRUE), G("NoG", FALSE)>>],
                       [name |-> "M1", kind |-> "message", msgType |-> "X", skipExcluded |-> FALSE,
                        members |-> <<F("A", TRUE), F("B", FALSE), G("NoG", TRUE), C("K", FALSE)>>],
                       [name |-> "M2", kind |-> "message", msgType |-> "Y", skipExcluded |-> FALSE,
                        members |-> <<F("D", FALSE), F("A", TRUE)>>],
                       [name |-> "K", kind |-> "component", msgType |-> "", skipExcluded |-> TRUE,
                        members |-> <<F("B", TRUE), F("D", FALSE)>>] >>,
         dupFieldNumber |-> FALSE, dupMsgType |-> FALSE]

VARIABLES s, script
vars == <<s, script>>
Init == s = Base /\ script = <<>>

Owners == 1..Len(s.owners)
RemoveAt(q, i) == SubSeq(q, 1, i - 1) \o SubSeq(q, i + 1, Len(q))
SwapAt(q, i) == [q EXCEPT ![i] = q[i + 1], ![i + 1] = q[i]]

Edit(op, o, i) ==
  /\ script' = Append(script, [op |-> op, owner |-> o, member |-> i])
  /\ CASE op = "remove"   -> s' = [s EXCEPT !.owners[o].members = RemoveAt(@, i)]
       [] op = "swap"     -> s' = [s EXCEPT !.owners[o].members = SwapAt(@, i)]
       [] op = "required" -> s' = [s EXCEPT !.owners[o].members[i].required = ~@]
       [] op = "dupfield" -> s' = [s EXCEPT !.dupFieldNumber = TRUE]
       [] op = "dupmsg"   -> s' = [s EXCEPT !.dupMsgType = TRUE]

Next ==
  /\ Len(script) < MaxEdits
  /\ \/ \E o \in Owners : \E i \in 1..Len(s.owners[o].members) :
          /\ ~s.owners[o].members[i].excluded
          /\ (Edit("remove", o, i) \/ Edit("required", o, i))
     \/ \E o \in Owners : \E i \in 1..(Len(s.owners[o].members) - 1) : Edit("swap", o, i)
     \/ Edit("dupfield", 0, 0) \/ Edit("dupmsg", 0, 0)
Spec == Init /\ [][Next]_vars

\* consistency of the declarations on every reachable schema
InvDecls == \A o \in Owners :
  LET ow == s.owners[o]
      a == AccessorDecls(ow)
      m == MemberDecls(ow)
  IN /\ Len(a) = Len(m)
     /\ \A j \in 1..Len(a) : a[j].index = j - 1                        \* indices dense and in order
     /\ \A j \in 1..Len(m) : m[j].decl \notin {"FieldBeginString", "FieldBodyLength", "FieldMsgType", "FieldCheckSum"} \/ ~ow.skipExcluded
     /\ Len(ArgTypes(ow)) = Cardinality({j \in 1..Len(Visible(ow)) : Visible(ow)[j].required})
InvAccept == Accepts(s) <=> (\A j \in 1..Len(script) : script[j].op \notin {"dupfield", "dupmsg"})
EmitScript == PrintT("EDITS " \o ToJson([script |-> script, accept |-> Accepts(s)]))
=============================================================================
