----------------------------- MODULE MCSession -----------------------------
(***************************************************************************)
(* Exhaustive / simulated exploration of Session: every history of         *)
(* abstract inbound classes (valid, refused and damaged Logons, heartbeats,*)
(* test requests, resend requests, logouts, application and unknown types) *)
(* interleaved with local sends, logouts, Stop and the passage of time, up *)
(* to Depth steps.  TLC checks the session properties on the model as      *)
(* action properties, and prints every explored history as a scenario      *)
(* ("SCN <json>") that the harness replays on the real session.            *)
(***************************************************************************)
EXTENDS Session, Json

CONSTANTS Role,        \* "acceptor" | "initiator"
          Family,      \* which action alphabet: "logon" | "admin" | "resend" | "logout" | "time" | "mix"
          Depth,       \* number of steps after Run()
          HbMin, HbMax, HbCfg, CloseMs, StartSeq

Cfg == [role |-> Role, hbMin |-> HbMin, hbMax |-> HbMax, hbCfg |-> HbCfg, encCfg |-> "0",
        allowed |-> {"0"}, closeMs |-> CloseMs, startSeq |-> StartSeq]

VARIABLES s, hist, peerSeq
vars == <<s, hist, peerSeq>>

Act(a) == [a |-> a, seq |-> 0, sq |-> "ok", integ |-> "none", hb |-> 0, enc |-> "0", cred |-> TRUE,
           id |-> <<>>, b |-> 0, e |-> 0, ms |-> 0, mid |-> "", midSeq |-> 0]

Mid == IF Role = "initiator" THEN HbCfg ELSE (HbMin + HbMax) \div 2

Logons ==
  LET g == [Act("logon") EXCEPT !.hb = Mid]
  IN IF Family \in {"logon", "mix"}
     THEN {g, [g EXCEPT !.hb = HbMin], [g EXCEPT !.hb = HbMax], [g EXCEPT !.hb = HbMin - 1],
           [g EXCEPT !.hb = HbMax + 1], [g EXCEPT !.enc = "9"], [g EXCEPT !.cred = FALSE],
           [g EXCEPT !.enc = "9", !.hb = HbMax + 1], [g EXCEPT !.seq = 3]}   \* seq = 3: gap (see Concrete)
     ELSE {g, [g EXCEPT !.seq = 3]}

Ids == { <<65>>, <<61, 49>>, <<49, 49, 50, 61, 88>> }    \* "A", "=1", "112=X"

Admin(st) ==
  {Act("logout"), Act("hbt")}
    \cup {[Act("testreq") EXCEPT !.id = i] : i \in IF Family \in {"admin", "mix"} THEN Ids ELSE {<<65>>}}
    \cup (IF Family \in {"resend", "mix", "admin"}
          THEN {[Act("resend") EXCEPT !.b = p[1], !.e = p[2]] :
                  p \in {<<1, 0>>, <<1, 1>>, <<2, st.outSeq>>, <<st.outSeq, st.outSeq>>, <<0, 0>>, <<2, 1>>,
                         <<1, st.outSeq + 1>>, <<st.outSeq + 1, 0>>, <<StartSeq + 1, 0>>}}
          ELSE {[Act("resend") EXCEPT !.b = 1, !.e = 0]})

Damaged ==
  IF Family \in {"admin", "mix"}
  THEN {[Act(t) EXCEPT !.integ = d[1], !.sq = d[2], !.hb = Mid, !.b = 1, !.e = 0, !.id = <<65>>] :
          t \in {"logon", "logout", "hbt", "testreq", "resend"},
          d \in {<<"checksum", "ok">>, <<"bodylength", "ok">>, <<"nonnum", "ok">>, <<"none", "nonnum">>,
                 <<"none", "missing">>, <<"checksum", "missing">>}}
  ELSE {[Act("hbt") EXCEPT !.integ = "checksum"]}

Others == {Act("app"), Act("unknown")}

Locals(st) ==
  (IF st.everLogged THEN {Act("send")} ELSE {})
    \cup (IF Family \in {"logout", "mix", "time"} THEN {Act("llogout"), Act("stop")} ELSE {})
    \cup (IF Family \in {"logout", "time", "mix"}
          THEN {[Act("advance") EXCEPT !.ms = d] :
                  d \in IF Family = "time"
                        THEN {100, HbCfg * 500, HbCfg * 1000, HbCfg * 1100, (HbCfg + 1) * 1000, (HbCfg + 1) * 2200 + 100}
                        ELSE {CloseMs \div 2, CloseMs, CloseMs + 100}}
          ELSE {})

Inbound(st) == Logons \cup Admin(st) \cup Damaged \cup Others

\* the peer numbers its messages consecutively; seq = 3 in the abstract action means "skip two"
Concrete(a, ps) ==
  IF a.a \in {"send", "llogout", "stop", "advance", "run"} THEN a
  ELSE [a EXCEPT !.seq = IF a.seq = 3 THEN ps + 3 ELSE ps + 1]
NextPeerSeq(a, ps) ==
  IF a.a \in {"send", "llogout", "stop", "advance", "run"} THEN ps
  ELSE IF a.seq = 3 THEN ps + 3 ELSE ps + 1

\* ---- time passing on the model: timers fire at the earliest instant of their window ----
RECURSIVE AdvanceTo(_, _)
AdvanceTo(x, tEnd) ==
  LET cand == (IF x.timers /\ ~x.ctxDone /\ LoggedOn(x) THEN {x.lastOut + HbMs(x)} ELSE {})
                \cup (IF x.timers /\ ~x.ctxDone /\ x.st \in {"SL", "WTR"} THEN {x.lastIn + TinMs(x)} ELSE {})
                \cup (IF x.stopAt >= 0 THEN {x.stopAt} ELSE {})
      due == {t \in cand : t <= tEnd}
  IN IF due = {} THEN [x EXCEPT !.now = tEnd]
     ELSE LET t0 == CHOOSE t \in due : \A u \in due : t <= u
              t == IF t0 < x.now THEN x.now ELSE t0
          IN IF x.stopAt >= 0 /\ x.stopAt = t0 THEN AdvanceTo(StopDeadline(x, t), tEnd)
             ELSE IF HeartbeatEnabled(x, t) /\ x.lastOut + HbMs(x) = t0 THEN AdvanceTo(TimerHeartbeat(x, t), tEnd)
             ELSE IF DisconnectEnabled(x, t) THEN AdvanceTo(TimerDisconnect(x, t), tEnd)
             ELSE IF TestReqEnabled(x, t) THEN AdvanceTo(TimerTestRequest(x, t), tEnd)
             ELSE [x EXCEPT !.now = tEnd]

Step(x, a) ==
  CASE a.a = "send"    -> AppSend(x)
    [] a.a = "llogout" -> LocalLogout(x)
    [] a.a = "stop"    -> Stop(x)
    [] a.a = "advance" -> AdvanceTo(x, x.now + a.ms)
    [] OTHER           -> Recv(x, a)

Init == s = Run(InitState(Cfg)) /\ hist = <<Act("run")>> /\ peerSeq = 0

Next ==
  /\ Len(hist) <= Depth
  /\ ~s.ctxDone
  /\ \E a0 \in Inbound(s) \cup Locals(s) :
       LET a == Concrete(a0, peerSeq)
       IN /\ s' = Step(s, a)
          /\ hist' = Append(hist, a)
          /\ peerSeq' = NextPeerSeq(a0, peerSeq)

Spec == Init /\ [][Next]_vars

Last == hist'[Len(hist')]
NewMsgs == SubSeq(s'.sent, Len(s.sent) + 1, Len(s'.sent))
IsInboundAct(a) == a.a \in {"logon", "logout", "hbt", "testreq", "resend", "app", "unknown"}
IsAdmin(a) == a.a \in {"logon", "logout", "hbt", "testreq", "resend"}

\* ---- the properties, on the model ------------------------------------------
\* C06: logged on only through a valid approved Logon (acceptor), a Logon answer (initiator),
\* or the resumption of a logged-on session that had a TestRequest outstanding
P06 == (IsLogged(s') /\ ~IsLogged(s)) =>
          \/ /\ Last.a = "logon" /\ Valid(Last) /\ s.st = "WL"
             /\ Last.enc \in Cfg.allowed /\ Last.hb >= HbMin /\ Last.hb <= HbMax /\ Last.cred
             /\ Len(NewMsgs) >= 1 /\ NewMsgs[1].ty = "A" /\ NewMsgs[1].hb = Last.hb /\ NewMsgs[1].enc = Last.enc
          \/ Last.a = "logon" /\ Valid(Last) /\ s.st = "WLA"
          \/ IsInboundAct(Last) /\ s.st = "WTR" /\ s.wtrLogged
P06b == (Last.a = "logon" /\ Valid(Last) /\ s.st = "WL" /\ ~IsLogged(s')) =>
          /\ Len(NewMsgs) = 1 /\ NewMsgs[1].ty = "3" /\ (Last.sq = "ok" => NewMsgs[1].refSeq = Last.seq)
P06c == (Last.a = "logon" /\ Valid(Last) /\ IsLogged(PreDispatch(s, Last))) =>
          /\ Len(NewMsgs) = 1 /\ NewMsgs[1].ty = "3" /\ IsLogged(s')
\* C07: nothing but Logon / Logout / Reject before the first successful logon
I07 == ~s.everLogged => \A j \in 1..Len(s.sent) : s.sent[j].ty \in {"A", "5", "3"}
\* C05: first transmissions are numbered consecutively from the stored counter
Firsts(q) == SelectSeq(q, LAMBDA m : m.dupOf = 0)
I05 == \A j \in 1..Len(Firsts(s.sent)) : Firsts(s.sent)[j].seq = StartSeq + j
\* C10: retransmissions are exactly the stored first transmissions of the requested range
P10 == (Last.a = "resend" /\ Valid(Last) /\ IsLogged(PreDispatch(s, Last))) =>
          LET e1 == IF Last.e = 0 THEN s.outSeq ELSE Last.e
          IN IF ResendRangeOk(s, Last.b, e1)
             THEN /\ Len(NewMsgs) = e1 - Last.b + 1
                  /\ \A j \in 1..Len(NewMsgs) : /\ NewMsgs[j].dupOf = s.store[Last.b + j - 1]
                                                /\ NewMsgs[j].seq = Last.b + j - 1
                                                /\ NewMsgs[j].ty = s.sent[s.store[Last.b + j - 1]].ty
             ELSE NewMsgs = <<>>
\* C14: one Heartbeat echoing the TestReqID
P14 == (Last.a = "testreq" /\ Valid(Last) /\ IsLogged(PreDispatch(s, Last))) =>
          Len(NewMsgs) = 1 /\ NewMsgs[1].ty = "0" /\ NewMsgs[1].trid = Last.id
\* C15: Logout acknowledged once / not answered twice; Stop ends on the answer
P15 == /\ (Last.a = "logout" /\ Valid(Last) /\ IsLogged(PreDispatch(s, Last))) =>
             Len(NewMsgs) = 1 /\ NewMsgs[1].ty = "5" /\ ~IsLogged(s')
       /\ (Last.a = "logout" /\ Valid(Last) /\ s.st = "WLO") =>
             NewMsgs = <<>> /\ s'.events[Len(s'.events)] = "logout" /\ (s.stopAt >= 0 => s'.ctxDone)
\* C16: invalid or unpermitted administrative messages: one Reject by sequence number, nothing else changes
Unpermitted(x, a) ==
  LET p == PreDispatch(x, a)
  IN \/ a.a \in {"hbt", "testreq", "resend"} /\ ~IsLogged(p)
     \/ a.a = "logout" /\ p.st \notin {"SL", "WLO"}
     \/ a.a = "logon" /\ IsLogged(p)
P16 == (IsAdmin(Last) /\ (~Valid(Last) \/ Unpermitted(s, Last))) =>
          /\ Len(NewMsgs) = 1 /\ NewMsgs[1].ty = "3"
          /\ (Last.sq = "ok" => NewMsgs[1].refSeq = Last.seq)
          /\ (Last.sq # "ok" => NewMsgs[1].refTag = SeqTag)
          /\ LoggedOn(s') = LoggedOn(PreDispatch(s, Last))
          /\ s'.ctxDone = s.ctxDone

Props == [][P06 /\ P06b /\ P06c /\ P10 /\ P14 /\ P15 /\ P16]_vars

\* ---- scenario emission -----------------------------------------------------
EmitScn == (Len(hist) = Depth + 1 \/ s.ctxDone) =>
          PrintT("SCN " \o ToJson([cfg |-> [role |-> Role, hbMin |-> HbMin, hbMax |-> HbMax, hbCfg |-> HbCfg,
                                            encCfg |-> "0", allowed |-> <<"0">>, closeMs |-> CloseMs,
                                            startSeq |-> StartSeq, buf |-> 10],
                                   steps |-> hist]))
=============================================================================
