------------------------------ MODULE SendPath ------------------------------
(***************************************************************************)
(* Who may touch the outbound counter, the message store and the outbound  *)
(* queue (C05, order part of C19): Session.send -> DefaultHandler.Send ->   *)
(* send -> sendRaw, and the single writer loop that drains the queue.      *)
(*                                                                         *)
(* Every goroutine that sends through the session (application senders,    *)
(* the heartbeat timer, the test-request timer, the inbound path producing *)
(* replies and rejects) is one process executing the same labels:          *)
(*   sLock -> takeSeq -> stamp -> hLock -> save -> handlers -> toBytes ->  *)
(*   enqueue -> hUnlock -> sUnlock                                         *)
(* The constants switch single mechanisms off; the weakened specifications *)
(* must violate WireConsecutive (non-vacuity) and their counterexamples    *)
(* are the adversarial schedules the harness forces on the real code by    *)
(* holding senders at gates inside application-provided code.              *)
(***************************************************************************)
EXTENDS Integers, Sequences, FiniteSets, TLC

CONSTANTS Senders,          \* set of process ids
          PerSender,        \* messages each process sends
          SessionLock,      \* TRUE: Session.mu held from takeSeq to the end (as in the code)
          HandlerLock,      \* TRUE: DefaultHandler.mu held from save to enqueue
          AtomicCounter,    \* TRUE: GetNextSeqNum is one atomic step
          Start             \* stored counter at session start

VARIABLES pc, left, sMu, hMu, counter, tmp, mine, queue, wire, saved
vars == <<pc, left, sMu, hMu, counter, tmp, mine, queue, wire, saved>>

None == 0
Init == /\ pc = [p \in Senders |-> "idle"]
        /\ left = [p \in Senders |-> PerSender]
        /\ sMu = None /\ hMu = None
        /\ counter = Start
        /\ tmp = [p \in Senders |-> 0]      \* non-atomic counter: value read
        /\ mine = [p \in Senders |-> 0]     \* number this process stamped on its message
        /\ queue = <<>> /\ wire = <<>> /\ saved = {}

Goto(p, l) == pc' = [pc EXCEPT ![p] = l]

Begin(p) == /\ pc[p] = "idle" /\ left[p] > 0
            /\ Goto(p, "sLock")
            /\ UNCHANGED <<left, sMu, hMu, counter, tmp, mine, queue, wire, saved>>
SLock(p) == /\ pc[p] = "sLock"
            /\ IF SessionLock THEN sMu = None /\ sMu' = p ELSE UNCHANGED sMu
            /\ Goto(p, IF AtomicCounter THEN "takeSeq" ELSE "readSeq")
            /\ UNCHANGED <<left, hMu, counter, tmp, mine, queue, wire, saved>>
TakeSeq(p) == /\ pc[p] = "takeSeq"
              /\ counter' = counter + 1 /\ mine' = [mine EXCEPT ![p] = counter + 1]
              /\ Goto(p, "hLock")
              /\ UNCHANGED <<left, sMu, hMu, tmp, queue, wire, saved>>
ReadSeq(p) == /\ pc[p] = "readSeq" /\ tmp' = [tmp EXCEPT ![p] = counter]
              /\ Goto(p, "writeSeq")
              /\ UNCHANGED <<left, sMu, hMu, counter, mine, queue, wire, saved>>
WriteSeq(p) == /\ pc[p] = "writeSeq" /\ counter' = tmp[p] + 1 /\ mine' = [mine EXCEPT ![p] = tmp[p] + 1]
               /\ Goto(p, "hLock")
               /\ UNCHANGED <<left, sMu, hMu, tmp, queue, wire, saved>>
HLock(p) == /\ pc[p] = "hLock"
            /\ IF HandlerLock THEN hMu = None /\ hMu' = p ELSE UNCHANGED hMu
            /\ Goto(p, "save")
            /\ UNCHANGED <<left, sMu, counter, tmp, mine, queue, wire, saved>>
Save(p) == /\ pc[p] = "save" /\ saved' = saved \cup {mine[p]}
           /\ Goto(p, "enqueue")      \* handlers and ToBytes do not touch shared state: folded into this step
           /\ UNCHANGED <<left, sMu, hMu, counter, tmp, mine, queue, wire>>
Enqueue(p) == /\ pc[p] = "enqueue" /\ queue' = Append(queue, mine[p])
              /\ Goto(p, "unlock")
              /\ UNCHANGED <<left, sMu, hMu, counter, tmp, mine, wire, saved>>
Unlock(p) == /\ pc[p] = "unlock"
             /\ hMu' = IF hMu = p THEN None ELSE hMu
             /\ sMu' = IF sMu = p THEN None ELSE sMu
             /\ left' = [left EXCEPT ![p] = left[p] - 1]
             /\ Goto(p, "idle")
             /\ UNCHANGED <<counter, tmp, mine, queue, wire, saved>>
\* the connection's single writer loop
Writer == /\ queue # <<>> /\ wire' = Append(wire, Head(queue)) /\ queue' = Tail(queue)
          /\ UNCHANGED <<pc, left, sMu, hMu, counter, tmp, mine, saved>>

Next == Writer \/ \E p \in Senders : Begin(p) \/ SLock(p) \/ TakeSeq(p) \/ ReadSeq(p) \/ WriteSeq(p)
                                         \/ HLock(p) \/ Save(p) \/ Enqueue(p) \/ Unlock(p)
Spec == Init /\ [][Next]_vars

\* C05: what is on the wire is numbered Start+1, Start+2, ... with no gap, duplicate or inversion
WireConsecutive == \A i \in 1..Len(wire) : wire[i] = Start + i
\* C19: whatever is on the wire (or queued) was saved first
StoredBeforeWire == \A i \in 1..Len(wire) : wire[i] \in saved
Done == \A p \in Senders : left[p] = 0 /\ pc[p] = "idle"
AllSent == (Done /\ queue = <<>>) => Len(wire) = Cardinality(Senders) * PerSender
=============================================================================
