---------------------------- MODULE SendPathInd ----------------------------
(***************************************************************************)
(* Unbounded version of SendPath for an inductive-invariant check with     *)
(* Apalache (C05): any number of messages per sender.  The FIFO queue and  *)
(* the single writer preserve order, so "the wire is numbered              *)
(* consecutively" is "the k-th enqueue carries number Start + k"; the      *)
(* model therefore counts enqueues (enq) and remembers whether every one   *)
(* of them carried the right number (ok).                                  *)
(*                                                                         *)
(*   apalache-mc check --init=IndInit --inv=IndInv --length=1 ...          *)
(*   apalache-mc check --init=Init    --inv=IndInv --length=0 ...          *)
(***************************************************************************)
EXTENDS Integers, FiniteSets

CONSTANTS
  \* @type: Set(Int);
  Senders,
  \* @type: Int;
  Start,
  \* @type: Bool;
  SessionLock     \* FALSE: the weakened variant (Session.mu not taken) -- the invariant must then fail

VARIABLES
  \* @type: Int -> Str;
  pc,
  \* @type: Int;
  sMu,
  \* @type: Int;
  counter,
  \* @type: Int -> Int;
  mine,
  \* @type: Int;
  enq,
  \* @type: Bool;
  ok

CInit == Senders = {1, 2, 3} /\ Start = 0 /\ SessionLock = TRUE
CInitWeak == Senders = {1, 2, 3} /\ Start = 0 /\ SessionLock = FALSE

None == 0
Labels == {"idle", "sLock", "takeSeq", "save", "enqueue", "unlock"}
Holding == {"takeSeq", "save", "enqueue", "unlock"}      \* between acquiring Session.mu and releasing it
Numbered == {"save", "enqueue"}                           \* has taken its number, has not enqueued it yet

Init == /\ pc = [p \in Senders |-> "idle"]
        /\ sMu = None /\ counter = Start
        /\ mine = [p \in Senders |-> 0]
        /\ enq = 0 /\ ok = TRUE

Begin(p)   == pc[p] = "idle" /\ pc' = [pc EXCEPT ![p] = "sLock"] /\ UNCHANGED <<sMu, counter, mine, enq, ok>>
SLock(p)   == /\ pc[p] = "sLock"
              /\ IF SessionLock THEN sMu = None /\ sMu' = p ELSE sMu' = sMu
              /\ pc' = [pc EXCEPT ![p] = "takeSeq"] /\ UNCHANGED <<counter, mine, enq, ok>>
TakeSeq(p) == /\ pc[p] = "takeSeq" /\ counter' = counter + 1 /\ mine' = [mine EXCEPT ![p] = counter + 1]
              /\ pc' = [pc EXCEPT ![p] = "save"] /\ UNCHANGED <<sMu, enq, ok>>
Save(p)    == pc[p] = "save" /\ pc' = [pc EXCEPT ![p] = "enqueue"] /\ UNCHANGED <<sMu, counter, mine, enq, ok>>
Enqueue(p) == /\ pc[p] = "enqueue" /\ enq' = enq + 1 /\ ok' = (ok /\ mine[p] = Start + enq + 1)
              /\ pc' = [pc EXCEPT ![p] = "unlock"] /\ UNCHANGED <<sMu, counter, mine>>
Unlock(p)  == /\ pc[p] = "unlock" /\ sMu' = (IF SessionLock THEN None ELSE sMu)
              /\ pc' = [pc EXCEPT ![p] = "idle"] /\ UNCHANGED <<counter, mine, enq, ok>>

Next == \E p \in Senders : Begin(p) \/ SLock(p) \/ TakeSeq(p) \/ Save(p) \/ Enqueue(p) \/ Unlock(p)

TypeOK == /\ pc \in [Senders -> Labels] /\ sMu \in Senders \cup {None} /\ mine \in [Senders -> Int]
          /\ counter \in Int /\ enq \in Int /\ ok \in BOOLEAN

\* the inductive invariant
IndInv ==
  /\ TypeOK
  /\ None \notin Senders
  /\ enq >= 0
  /\ ok
  \* the session lock: exactly its holder is inside the critical section
  /\ \A p \in Senders : (pc[p] \in Holding) <=> (sMu = p)
  \* the counter is ahead of the enqueues by exactly the one number that is taken but not yet enqueued
  /\ (\E p \in Senders : pc[p] \in Numbered) => counter = Start + enq + 1
  /\ (~\E p \in Senders : pc[p] \in Numbered) => counter = Start + enq
  /\ \A p \in Senders : pc[p] \in Numbered => mine[p] = counter

IndInit == IndInv

\* the property on the model: every enqueue (hence every message on the wire) carried the next number
WireConsecutive == ok
=============================================================================
