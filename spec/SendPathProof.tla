--------------------------- MODULE SendPathProof ---------------------------
(***************************************************************************)
(* TLAPS proof that the inductive invariant of the send path (C05) holds   *)
(* for ANY set of senders and any number of messages: the session lock     *)
(* makes "take a number ... enqueue it" atomic, so the k-th enqueue        *)
(* carries number Start + k.  Same model as SendPathInd (the Apalache      *)
(* check), without the weakening switch.                                   *)
(***************************************************************************)
EXTENDS Integers, TLAPS

CONSTANTS Senders, Start
ASSUME Assumptions == Start \in Int /\ 0 \notin Senders

VARIABLES pc, sMu, counter, mine, enq, ok
vars == <<pc, sMu, counter, mine, enq, ok>>

None == 0
Labels == {"idle", "sLock", "takeSeq", "save", "enqueue", "unlock"}
Holding == {"takeSeq", "save", "enqueue", "unlock"}
Numbered == {"save", "enqueue"}

Init == /\ pc = [p \in Senders |-> "idle"]
        /\ sMu = None /\ counter = Start
        /\ mine = [p \in Senders |-> 0]
        /\ enq = 0 /\ ok = TRUE

Begin(p)   == pc[p] = "idle" /\ pc' = [pc EXCEPT ![p] = "sLock"] /\ UNCHANGED <<sMu, counter, mine, enq, ok>>
SLock(p)   == pc[p] = "sLock" /\ sMu = None /\ sMu' = p /\ pc' = [pc EXCEPT ![p] = "takeSeq"] /\ UNCHANGED <<counter, mine, enq, ok>>
TakeSeq(p) == /\ pc[p] = "takeSeq" /\ counter' = counter + 1 /\ mine' = [mine EXCEPT ![p] = counter + 1]
              /\ pc' = [pc EXCEPT ![p] = "save"] /\ UNCHANGED <<sMu, enq, ok>>
Save(p)    == pc[p] = "save" /\ pc' = [pc EXCEPT ![p] = "enqueue"] /\ UNCHANGED <<sMu, counter, mine, enq, ok>>
Enqueue(p) == /\ pc[p] = "enqueue" /\ enq' = enq + 1 /\ ok' = (ok /\ mine[p] = Start + enq + 1)
              /\ pc' = [pc EXCEPT ![p] = "unlock"] /\ UNCHANGED <<sMu, counter, mine>>
Unlock(p)  == pc[p] = "unlock" /\ sMu' = None /\ pc' = [pc EXCEPT ![p] = "idle"] /\ UNCHANGED <<counter, mine, enq, ok>>

Next == \E p \in Senders : Begin(p) \/ SLock(p) \/ TakeSeq(p) \/ Save(p) \/ Enqueue(p) \/ Unlock(p)
Spec == Init /\ [][Next]_vars

TypeOK == /\ pc \in [Senders -> Labels] /\ sMu \in Senders \cup {None} /\ mine \in [Senders -> Int]
          /\ counter \in Int /\ enq \in Int /\ ok \in BOOLEAN

IndInv ==
  /\ TypeOK
  /\ enq >= 0
  /\ ok
  /\ \A p \in Senders : (pc[p] \in Holding) <=> (sMu = p)
  /\ (\E p \in Senders : pc[p] \in Numbered) => counter = Start + enq + 1
  /\ (~\E p \in Senders : pc[p] \in Numbered) => counter = Start + enq
  /\ \A p \in Senders : pc[p] \in Numbered => mine[p] = counter

WireConsecutive == ok

THEOREM InitInv == Init => IndInv
  BY Assumptions DEF Init, IndInv, TypeOK, Labels, Holding, Numbered, None

THEOREM StepInv == IndInv /\ [Next]_vars => IndInv'
<1> SUFFICES ASSUME IndInv, [Next]_vars PROVE IndInv'
  OBVIOUS
<1>1. CASE UNCHANGED vars
  BY <1>1 DEF IndInv, TypeOK, vars, Holding, Numbered
<1>2. ASSUME NEW p \in Senders, Begin(p) PROVE IndInv'
  BY <1>2, Assumptions DEF IndInv, TypeOK, Begin, Labels, Holding, Numbered, None
<1>3. ASSUME NEW p \in Senders, SLock(p) PROVE IndInv'
  BY <1>3, Assumptions DEF IndInv, TypeOK, SLock, Labels, Holding, Numbered, None
<1>4. ASSUME NEW p \in Senders, TakeSeq(p) PROVE IndInv'
  BY <1>4, Assumptions DEF IndInv, TypeOK, TakeSeq, Labels, Holding, Numbered, None
<1>5. ASSUME NEW p \in Senders, Save(p) PROVE IndInv'
  BY <1>5, Assumptions DEF IndInv, TypeOK, Save, Labels, Holding, Numbered, None
<1>6. ASSUME NEW p \in Senders, Enqueue(p) PROVE IndInv'
  BY <1>6, Assumptions DEF IndInv, TypeOK, Enqueue, Labels, Holding, Numbered, None
<1>7. ASSUME NEW p \in Senders, Unlock(p) PROVE IndInv'
  BY <1>7, Assumptions DEF IndInv, TypeOK, Unlock, Labels, Holding, Numbered, None
<1> QED
  BY <1>1, <1>2, <1>3, <1>4, <1>5, <1>6, <1>7 DEF Next

THEOREM Safety == Spec => []WireConsecutive
<1>1. Spec => []IndInv
  BY InitInv, StepInv, PTL DEF Spec
<1>2. IndInv => WireConsecutive
  BY DEF IndInv, WireConsecutive
<1> QED
  BY <1>1, <1>2, PTL
=============================================================================
