------------------------------ MODULE Session ------------------------------
(***************************************************************************)
(* The FIX session layer of simplefix-go (session/session.go, handler.go,  *)
(* utils/timer.go, storages/memory) as a state machine.                    *)
(*                                                                         *)
(* The whole session state is one record `s`; every handler branch of the  *)
(* code is one named operator  s -> s'  (functional core), and the TLA+    *)
(* actions of MCSession / SessionTrace are thin wrappers `s' = Op(s, a)`.  *)
(* This makes the same operators usable for exhaustive exploration, for    *)
(* emitting behaviours to replay on the real code, and for validating      *)
(* recorded executions step by step.                                       *)
(*                                                                         *)
(* Time is an integer number of milliseconds (virtual clock of the         *)
(* harness).  Timer-driven behaviour is specified at the level of the      *)
(* properties: a window [T, T + T/10] after the last refresh in which the  *)
(* heartbeat / test request / disconnect must happen (T/10 is the polling  *)
(* granularity of utils.Timer), not the exact tick phase.                  *)
(*                                                                         *)
(* Where the properties are silent the specification is permissive and     *)
(* says so with a named "Lenient..." operator (R2 of DESIGN.md).           *)
(***************************************************************************)
EXTENDS Integers, Sequences, FiniteSets, TLC

NoId == <<>>

\* ---- messages (abstract digests; the harness tokenizer extracts the same record
\* ---- from the real bytes) ----------------------------------------------------
\* ty: MsgType text ("A" logon, "5" logout, "0" heartbeat, "1" test request,
\*     "2" resend request, "3" reject, "D" application, ...)
\* seq: MsgSeqNum stamped by the session (resends keep their original number)
\* hb, enc: Logon fields 108 / 98 (hb = -1 when absent)
\* refSeq, refTag: Reject fields 45 / 371 (-1 when absent)
\* trid: TestReqID bytes (112), <<>> when absent
\* b, e: ResendRequest 7 / 16 (-1 when absent)
\* dupOf: 0 for a first transmission, else the 1-based position in `sent` of the
\*        first transmission this message is byte-identical to
Msg(ty, seq) == [ty |-> ty, seq |-> seq, hb |-> -1, enc |-> "", refSeq |-> -1, refTag |-> -1,
                 trid |-> NoId, b |-> -1, e |-> -1, dupOf |-> 0, user |-> "", pass |-> ""]
\* credentials the harness configures on an initiating session (LogonSettings.Username / Password)
CfgUser == "user"
CfgPass == "good"

\* ---- configuration and initial state ---------------------------------------
\* role: "acceptor" | "initiator"; hbMin/hbMax: acceptor limits (seconds); hbCfg/encCfg:
\* initiator's configured interval / method; closeMs: LogonSettings.CloseTimeout;
\* allowed: allowed EncryptMethod values; preload: number of messages another session
\* already stored in the shared message store (numbers 1..preload), counter reused or not
InitState(cfg) ==
  [cfg |-> cfg,
   st |-> "NEW",            \* before Run(): NEW; then WL / WLA / SL / WLO / WTR / DIS
   wtrLogged |-> FALSE,     \* WTR was entered from a logged-on state
   hb |-> 0,                \* negotiated HeartBtInt (seconds), 0 = none
   outSeq |-> cfg.startSeq, \* last outbound sequence number handed out by the counter store
   inSeq |-> 0,             \* stored incoming counter
   sent |-> <<>>,           \* everything put on the wire so far (digests)
   store |-> <<>>,          \* store[n] = position in sent of the first transmission of number n (0: none/foreign)
   now |-> 0, lastOut |-> 0, lastIn |-> 0,
   lastOutBefore |-> 0,     \* last outbound instant strictly before lastOut (same-instant tolerance)
   hbAt |-> -1,             \* instant of the last timer heartbeat
   ctxAt |-> -1,            \* instant at which the context was cancelled
   timers |-> FALSE,        \* a timer pair is running
   trCount |-> 0,           \* TestReqID counter of the inbound timer loop
   ctxDone |-> FALSE,       \* session context cancelled
   stopAt |-> -1,           \* Stop(): deadline at which the context is cancelled
   events |-> <<>>,         \* notifications delivered to OnChangeState callbacks
   everLogged |-> FALSE,
   user |-> CfgUser, pass |-> CfgPass,   \* the initiator's configured credentials ("" = not configured)
   saveFailOnly |-> 0,      \* ... refuses exactly this Save (0: none)
   saveFailFrom |-> 0,      \* the application's message store refuses every Save from this one on (0: never)
   nsaves |-> 0,            \* Save calls so far
   ctrFailOnly |-> 0,       \* the application's counter store refuses exactly this update of the incoming counter (0: none)
   nsets |-> 0,             \* updates of the incoming counter so far
   imposeHb |-> 0,          \* the application's logon callback rewrites the interval of the settings it is handed (0: it does not)
   staleTR |-> FALSE]       \* (trace validation) a TestRequest of a timer that outlived a logout was tolerated

IsLogged(s)  == s.st = "SL"
\* the session is logged on in the sense of the properties (an outstanding
\* TestRequest of a logged-on session does not log it off)
LoggedOn(s)  == s.st = "SL" \/ (s.st = "WTR" /\ s.wtrLogged)
Home(s)      == IF s.cfg.role = "initiator" THEN "WLA" ELSE "WL"
HbMs(s)      == s.hb * 1000
Tol(s)       == IF s.hb \div 20 > 1 THEN s.hb \div 20 ELSE 1
TinMs(s)     == (s.hb + Tol(s)) * 1000

\* ---- the send path: number, stamp, save, enqueue ---------------------------
\* every send attempt consumes a number; the message is saved under it before
\* it reaches the wire
\* the store refuses the next Save: the message gets its number and is then neither stored nor transmitted (C19)
Failing(s) == (s.saveFailFrom > 0 /\ s.nsaves + 1 >= s.saveFailFrom) \/ (s.saveFailOnly > 0 /\ s.nsaves + 1 = s.saveFailOnly)
Emit(s, m0) ==
  LET n == s.outSeq + 1
      m == [m0 EXCEPT !.seq = n]
      pos == Len(s.sent) + 1
  IN IF Failing(s) THEN [s EXCEPT !.outSeq = n, !.nsaves = s.nsaves + 1]
     ELSE [s EXCEPT !.outSeq = n,
               !.nsaves = s.nsaves + 1,
               !.sent = Append(s.sent, m),
               !.store = [k \in 1..n |-> IF k = n THEN pos ELSE IF k <= Len(s.store) THEN s.store[k] ELSE 0],
               !.lastOut = s.now,
               !.lastOutBefore = IF s.now > s.lastOut THEN s.lastOut ELSE s.lastOutBefore]

Reject(s, refSeq, refTag) ==
  Emit(s, [Msg("3", 0) EXCEPT !.refSeq = refSeq, !.refTag = refTag])

Ev(s, e) == [s EXCEPT !.events = Append(s.events, e)]

\* ---- inbound messages ------------------------------------------------------
\* a: [a (type class), seq, sq ("ok" | "missing" | "nonnum"), integ ("none" | "checksum" |
\*     "bodylength" | "nonnum"), hb, enc, cred, id, b, e]
SeqTag == 34
Valid(a) == a.integ = "none" /\ a.sq # "nonnum"

\* Reject that references the offending message by its sequence number, or names the
\* MsgSeqNum tag when the number is missing / not numeric (C16)
RejectBySeq(s, a) ==
  IF a.sq = "ok" THEN Reject(s, a.seq, -1) ELSE Reject(s, -1, SeqTag)

\* all-types handlers that run before the type handler
\* (the first of them records the peer's number in the counter store; when that store refuses, the chain of all-types handlers
\*  ends there -- the ones registered at logon, which restart the inbound timer, are not reached -- and the handlers of the
\*  message's own type run all the same: C19, "offered to the all-types handlers and then to the handlers of its own type")
PreDispatch(s, a) ==
  LET sets == s.st \notin {"WL", "WLA", "NEW"} /\ a.sq = "ok"
      fails == sets /\ s.ctrFailOnly > 0 /\ s.nsets + 1 = s.ctrFailOnly
      s0 == IF sets THEN [s EXCEPT !.nsets = s.nsets + 1] ELSE s
      s1 == IF sets THEN [s0 EXCEPT !.inSeq = a.seq] ELSE s0
      s2 == IF s1.timers THEN [s1 EXCEPT !.lastIn = s1.now] ELSE s1
  IN IF fails THEN s0
     ELSE IF s2.timers /\ s2.st = "WTR" THEN [s2 EXCEPT !.st = "SL"] ELSE s2

\* gap detection at logon: ask for everything after the last message received
GapCheck(s, a) ==
  LET s1 == IF a.sq = "ok" /\ s.inSeq + 1 < a.seq
            THEN Emit(s, [Msg("2", 0) EXCEPT !.b = s.inSeq + 1, !.e = 0])
            ELSE s
      fails == s1.ctrFailOnly > 0 /\ s1.nsets + 1 = s1.ctrFailOnly
  IN [s1 EXCEPT !.nsets = s1.nsets + 1, !.inSeq = IF fails THEN s1.inSeq ELSE IF a.sq = "ok" THEN a.seq ELSE 0]

StartTimers(s) == [s EXCEPT !.timers = TRUE, !.lastOut = s.now, !.lastIn = s.now]

RecvLogon(s0, a) ==
  LET s == PreDispatch(s0, a)
      sn == IF a.sq = "ok" THEN a.seq ELSE 0
  IN IF ~Valid(a) THEN RejectBySeq(s, a)
     ELSE CASE s.st = "WL" ->
                 IF a.enc \notin s.cfg.allowed THEN Reject(s, sn, 98)
                 ELSE IF a.hb < s.cfg.hbMin \/ a.hb > s.cfg.hbMax THEN Reject(s, sn, 108)
                 ELSE IF ~a.cred THEN Reject(s, sn, -1)
                 \* (an application that imposes an interval of its own in its logon callback: the answer announces that interval
                 \*  and the timers run on it - the session has ONE heartbeat interval, the one its Logon answer states)
                 ELSE LET hbEff == IF s.imposeHb > 0 THEN s.imposeHb ELSE a.hb
                          s1 == StartTimers([s EXCEPT !.hb = hbEff])
                          s2 == Ev([s1 EXCEPT !.st = "SL", !.everLogged = TRUE], "logon")
                          s3 == Emit(s2, [Msg("A", 0) EXCEPT !.hb = hbEff, !.enc = a.enc])
                      IN GapCheck(s3, a)
            [] s.st = "WLA" ->
                 LET s1 == Ev([s EXCEPT !.st = "SL", !.everLogged = TRUE], "logon")
                     s2 == IF s.cfg.role = "initiator" THEN StartTimers([s1 EXCEPT !.hb = s.cfg.hbCfg]) ELSE s1
                 IN GapCheck(s2, a)
            [] s.st = "SL" -> RejectBySeq(s, a)
            [] OTHER -> s

\* the peer's Logout answer (or the deadline) cancels the context of a stopping session
AfterLogoutEvent(s) == IF s.stopAt >= 0 THEN [s EXCEPT !.ctxDone = TRUE, !.ctxAt = s.now, !.stopAt = -1] ELSE s

RecvLogout(s0, a) ==
  LET s == PreDispatch(s0, a)
  IN IF ~Valid(a) THEN RejectBySeq(s, a)
     ELSE CASE s.st = "WLO" -> [AfterLogoutEvent(Ev(s, "logout")) EXCEPT !.st = Home(s), !.timers = FALSE]
            [] s.st = "SL"  -> [Emit(Ev(s, "request"), Msg("5", 0)) EXCEPT !.st = Home(s), !.timers = FALSE]
            [] OTHER        -> [RejectBySeq(s, a) EXCEPT !.st = IF s.st \in {"DIS"} THEN s.st ELSE Home(s)]

RecvHeartbeat(s0, a) ==
  LET s == PreDispatch(s0, a)
  IN IF ~Valid(a) \/ ~IsLogged(s) THEN RejectBySeq(s, a) ELSE s

RecvTestRequest(s0, a) ==
  LET s == PreDispatch(s0, a)
  IN IF ~Valid(a) \/ ~IsLogged(s) THEN RejectBySeq(s, a)
     ELSE Emit(s, [Msg("0", 0) EXCEPT !.trid = a.id])

\* retransmission: the stored messages b..e', byte-identical, original numbers, no new number
RECURSIVE Resend(_, _, _)
Resend(s, k, e) ==
  IF k > e THEN s
  ELSE LET first == s.sent[s.store[k]]
       IN Resend([s EXCEPT !.sent = Append(s.sent, [first EXCEPT !.dupOf = s.store[k]]), !.lastOut = s.now], k + 1, e)

ResendRangeOk(s, b, e) == 1 <= b /\ b <= e /\ e <= s.outSeq /\ e <= Len(s.store)
                           /\ \A k \in b..e : s.store[k] # 0

RecvResendRequest(s0, a) ==
  LET s == PreDispatch(s0, a)
      e1 == IF a.e = 0 THEN s.outSeq ELSE a.e
  IN IF ~Valid(a) \/ ~IsLogged(s) THEN RejectBySeq(s, a)
     ELSE IF ResendRangeOk(s, a.b, e1) THEN Resend(s, a.b, e1)
     ELSE s    \* see LenientResend in SessionTrace: a partly valid range may be served within bounds

\* application and unknown message types: no session-level reaction
RecvOther(s0, a) == PreDispatch(s0, a)

Recv(s, a) ==
  CASE s.st = "DIS"    -> s      \* the handler was stopped by the disconnect: nothing is dispatched any more
    [] a.a = "logon"   -> RecvLogon(s, a)
    [] a.a = "logout"  -> RecvLogout(s, a)
    [] a.a = "hbt"     -> RecvHeartbeat(s, a)
    [] a.a = "testreq" -> RecvTestRequest(s, a)
    [] a.a = "resend"  -> RecvResendRequest(s, a)
    [] OTHER           -> RecvOther(s, a)

\* ---- local calls -----------------------------------------------------------
\* Session.Run(): acceptor waits for a Logon; initiator sends its Logon first
Run(s) ==
  IF s.cfg.role = "initiator"
  THEN Emit(Ev([s EXCEPT !.st = "WLA"], "request?"), [Msg("A", 0) EXCEPT !.hb = s.cfg.hbCfg, !.enc = s.cfg.encCfg, !.user = s.user, !.pass = s.pass])
  ELSE [s EXCEPT !.st = "WL"]

\* Session.LogonRequest() on an initiator that logged out: a new Logon, waiting for the answer again
Relogon(s) == Emit(Ev([s EXCEPT !.st = "WLA"], "request?"), [Msg("A", 0) EXCEPT !.hb = s.cfg.hbCfg, !.enc = s.cfg.encCfg, !.user = s.user, !.pass = s.pass])

AppType == "V"   \* the harness sends a MarketDataRequest as its application message
AppSend(s) == Emit(s, Msg(AppType, 0))

\* (no timer obligation exists while the answer is awaited: HeartbeatEnabled / TestReqEnabled need a logged-on state;
\*  what a still-running timer might send in that state is tolerated by SessionTrace!StaleTimers, by name)
LocalLogout(s) == Emit(Ev([s EXCEPT !.st = "WLO"], "request"), Msg("5", 0))

\* (a second Stop does not postpone the first one's deadline)
Stop(s) == IF s.cfg.closeMs = 0 THEN [LocalLogout(s) EXCEPT !.ctxDone = TRUE, !.ctxAt = s.now]
           ELSE [LocalLogout(s) EXCEPT !.stopAt = IF s.stopAt >= 0 /\ s.stopAt < s.now + s.cfg.closeMs THEN s.stopAt ELSE s.now + s.cfg.closeMs]


\* ---- timers (property-level windows) ---------------------------------------
Win(t) == t \div 10
\* Both timer loops decide on their own tick: a heartbeat whose decision was taken at the same
\* instant at which another message (a TestRequest, a reply) left is still "N after the previous
\* outbound message" -- but never two timer heartbeats at one instant.
LastOutAsOf(s, t) == IF s.lastOut = t THEN s.lastOutBefore ELSE s.lastOut
HeartbeatEnabled(s, t) == s.timers /\ ~s.ctxDone /\ LoggedOn(s) /\ t - LastOutAsOf(s, t) >= HbMs(s) /\ t > s.hbAt
HeartbeatDeadline(s)   == s.lastOut + HbMs(s) + Win(HbMs(s))
TimerHeartbeat(s, t)   == Emit([s EXCEPT !.now = t, !.hbAt = t], Msg("0", 0))

TestReqEnabled(s, t)  == s.timers /\ ~s.ctxDone /\ s.st = "SL" /\ t - s.lastIn >= TinMs(s)
InboundDeadline(s)    == s.lastIn + TinMs(s) + Win(TinMs(s))
TimerTestRequest(s, t) ==
  LET s1 == [s EXCEPT !.now = t, !.st = "WTR", !.wtrLogged = TRUE, !.trCount = s.trCount + 1, !.lastIn = t]
  IN Emit(s1, [Msg("1", 0) EXCEPT !.trid = NoId])   \* the ID text is the loop's counter; bound by SessionTrace

DisconnectEnabled(s, t) == s.timers /\ ~s.ctxDone /\ s.st = "WTR" /\ t - s.lastIn >= TinMs(s)
TimerDisconnect(s, t) == Ev([s EXCEPT !.now = t, !.st = "DIS", !.ctxDone = TRUE, !.ctxAt = t, !.timers = FALSE], "disconnect")

StopDeadline(s, t) == [s EXCEPT !.now = t, !.ctxDone = TRUE, !.ctxAt = t, !.stopAt = -1]

=============================================================================
