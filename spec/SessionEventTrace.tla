------------------------ MODULE SessionEventTrace ------------------------
(***************************************************************************)
(* Validation of traces recorded from the repository's OWN integration     *)
(* tests (tests/ built with -tags verif: one event per inbound message at  *)
(* the start of its dispatch and per outbound message after serialization, *)
(* under the handler lock) against Session.                                *)
(*                                                                         *)
(* Unlike SessionTrace, one trace line is one event, not one step with its *)
(* outputs: an "in" event applies the Recv operator and queues the replies *)
(* the specification expects (pending); an "out" event must be the head of *)
(* that queue, or an enabled timer action, or a message the application    *)
(* itself sends.  Time is real here: every window is widened by Slack.     *)
(* Sequence numbers are not compared event by event (a timer message may   *)
(* overtake a queued reply); they are checked as a whole: first            *)
(* transmissions are numbered consecutively in the order they leave.       *)
(***************************************************************************)
EXTENDS Session, Json, SequencesExt

CONSTANTS TraceFile, Slack
Trace == ndJsonDeserialize(TraceFile)

\* prev: until when a timer message that was decided earlier may still appear.  A timer goroutine decides that its deadline has
\* passed and sends afterwards; the decision is not an event of its own, so other events (the other timer's message, an inbound
\* message and the replies to it, which restart the deadline) can slip in between.  A timer message is therefore also accepted
\* up to Slack after an event before which it was due; accepting one uses the allowance up.
VARIABLES l, s, pending, lastSeq, skip, prev
vars == <<l, s, pending, lastSeq, skip, prev>>

Rej(prop, r, what, detail) ==
  PrintT("REJECT " \o ToJson(<<prop, r.id \o "#" \o ToString(r.i), what, detail>>)) /\ FALSE

AsMsg(o) == [ty |-> o.ty, seq |-> o.seq, hb |-> o.hb, enc |-> o.enc, refSeq |-> o.refSeq, refTag |-> o.refTag,
             trid |-> o.trid, b |-> o.b, e |-> o.e, dupOf |-> o.dupOf, user |-> o.user, pass |-> o.pass]
Brief(m) == [ty |-> m.ty, seq |-> m.seq, refSeq |-> m.refSeq, refTag |-> m.refTag, hb |-> m.hb, b |-> m.b, e |-> m.e, dupOf |-> m.dupOf]

\* what the properties fix about a reply, without its number
MatchLoose(e, g) ==
  /\ e.ty = g.ty /\ (e.dupOf = 0) = (g.dupOf = 0)
  /\ (e.ty = "A" => e.hb = g.hb /\ e.enc = g.enc)
  /\ (e.ty = "3" => (e.refSeq >= 0 => g.refSeq = e.refSeq) /\ (e.refTag >= 0 => g.refTag = e.refTag))
  /\ (e.ty = "0" => e.trid = g.trid)
  /\ (e.ty = "2" => e.b = g.b /\ e.e = g.e)

AdminTypes == {"A", "5", "0", "1", "3"}

CfgOf(c) == [role |-> c.role, hbMin |-> c.hbMin, hbMax |-> c.hbMax, hbCfg |-> c.hbCfg, encCfg |-> c.encCfg,
             allowed |-> ToSet(c.allowed), closeMs |-> c.closeMs, startSeq |-> c.startSeq]

\* a timer deadline that passed (by more than Slack) without its message
Missed(x, t) ==
  IF x.timers /\ ~x.ctxDone /\ LoggedOn(x) /\ HeartbeatDeadline(x) + Slack < t THEN "heartbeat"
  ELSE IF x.timers /\ ~x.ctxDone /\ x.st = "SL" /\ InboundDeadline(x) + Slack < t THEN "testrequest"
  ELSE "none"

\* res: [s, pending, ok]
OnIn(x, pend, r) ==
  LET x0 == [x EXCEPT !.now = r.t]
      m == Missed(x, r.t)
  IN IF pend # <<>> THEN [s |-> x, pending |-> pend,
                           ok |-> Rej("C06", r, "an expected reply was never sent", [expected |-> Brief(pend[1]), next |-> r.a.a])]
     ELSE IF m # "none" THEN [s |-> x, pending |-> pend,
                              ok |-> Rej(IF m = "heartbeat" THEN "C08" ELSE "C09", r, m \o " not sent in time", [before |-> r.t, lastOut |-> x.lastOut, lastIn |-> x.lastIn])]
     ELSE LET x1 == Recv(x0, r.a)
          IN [s |-> x1, pending |-> SubSeq(x1.sent, Len(x0.sent) + 1, Len(x1.sent)), ok |-> TRUE]

OnOut(x, pend, r, pv) ==
  LET g == AsMsg(r.m)
      t == r.t
      x0 == [x EXCEPT !.now = t]
  IN IF ~x.everLogged /\ g.ty \notin {"A", "5", "3"} /\ g.ty \in AdminTypes \cup {"2"}
        THEN [s |-> x, pending |-> pend, ok |-> Rej("C07", r, "message other than Logon/Logout/Reject sent before logon", [got |-> Brief(g)])]
     ELSE IF pend # <<>> /\ MatchLoose(pend[1], g) THEN [s |-> x, pending |-> Tail(pend), ok |-> TRUE]
     ELSE IF g.ty = "0" /\ g.trid = <<>> /\ g.dupOf = 0 /\ (HeartbeatEnabled(x, t + Slack) \/ t <= pv.hb)
        THEN [s |-> TimerHeartbeat(x, t), pending |-> pend, ok |-> TRUE]
     ELSE IF g.ty = "1" /\ g.dupOf = 0 /\ (TestReqEnabled(x, t + Slack) \/ t <= pv.tr)
        THEN [s |-> TimerTestRequest(x, t), pending |-> pend, ok |-> TRUE]
     \* StaleTimers: no property says that the timers stop while the answer to a Logout is awaited (the library does stop them;
     \* what a session must not do then -- count as logged on again -- is C06's business and is decided on SessionTrace)
     ELSE IF g.ty \in {"0", "1"} /\ g.dupOf = 0 /\ x.st = "WLO" /\ pend = <<>> /\ (g.ty = "1" \/ g.trid = <<>>)
        THEN [s |-> Emit(x0, g), pending |-> pend, ok |-> TRUE]
     ELSE IF g.ty = "A" /\ x.st = "NEW" /\ x.cfg.role = "initiator"
        THEN [s |-> Run(x0), pending |-> pend, ok |-> TRUE]
     ELSE IF g.ty = "5" /\ pend = <<>> THEN [s |-> LocalLogout(x0), pending |-> pend, ok |-> TRUE]      \* the application logs out / stops
     \* the repository's tests themselves send TestRequests through Session.Send (TestTestRequest): an application
     \* message like any other, it does not put the session into the waiting state
     ELSE IF g.ty = "1" /\ pend = <<>> /\ g.dupOf = 0 /\ IsLogged(x) THEN [s |-> Emit(x0, g), pending |-> pend, ok |-> TRUE]
     ELSE IF g.ty \notin AdminTypes /\ pend = <<>> /\ g.dupOf = 0
        THEN [s |-> Emit(x0, g), pending |-> pend, ok |-> TRUE]                                         \* the application sends (also a ResendRequest)
     ELSE [s |-> x, pending |-> pend,
           ok |-> Rej(IF g.ty = "0" THEN "C08" ELSE IF g.ty = "1" THEN "C09" ELSE "C06", r, "outbound message that neither answers the last inbound one nor is due by a timer",
                      [got |-> Brief(g), pending |-> Len(pend), st |-> x.st, lastOut |-> x.lastOut, lastIn |-> x.lastIn, at |-> t])]

\* the allowances after an event at time t that found the session in state x
Due(x, t, pv) == [hb |-> IF HeartbeatEnabled(x, t + Slack) THEN t + Slack ELSE pv.hb,
                  tr |-> IF TestReqEnabled(x, t + Slack) THEN t + Slack ELSE pv.tr]

Dummy == InitState([role |-> "acceptor", hbMin |-> 1, hbMax |-> 1, hbCfg |-> 1, encCfg |-> "0", allowed |-> {"0"}, closeMs |-> 0, startSeq |-> 0])

Init == l = 1 /\ s = Dummy /\ pending = <<>> /\ lastSeq = 0 /\ skip = FALSE /\ prev = [hb |-> -1, tr |-> -1]
Next ==
  /\ l <= Len(Trace)
  /\ l' = l + 1
  /\ LET r == Trace[l]
     IN IF r.k = "einit"
        THEN /\ s' = (IF r.cfg.role = "acceptor" THEN Run(InitState(CfgOf(r.cfg))) ELSE InitState(CfgOf(r.cfg)))
             /\ pending' = <<>> /\ lastSeq' = r.cfg.startSeq /\ skip' = FALSE /\ prev' = [hb |-> -1, tr |-> -1]
        ELSE IF skip THEN UNCHANGED <<s, pending, lastSeq, skip, prev>>
        ELSE IF r.kind = "in"
             THEN LET res == OnIn(s, pending, r)
                  IN s' = res.s /\ pending' = res.pending /\ skip' = ~res.ok /\ UNCHANGED lastSeq /\ prev' = Due(s, r.t, prev)
             ELSE LET res == OnOut(s, pending, r, prev)
                      first == r.m.dupOf = 0
                      seqOk == ~first \/ r.m.seq = lastSeq + 1
                                 \/ Rej("C05", r, "first transmissions are not numbered consecutively in the order they leave", [got |-> r.m.seq, previous |-> lastSeq])
                  IN /\ s' = res.s /\ pending' = res.pending
                     /\ skip' = ~(res.ok /\ seqOk)
                     /\ lastSeq' = IF first THEN r.m.seq ELSE lastSeq
                     /\ prev' = (IF r.m.ty = "0" /\ r.m.trid = <<>> THEN [Due(s, r.t, prev) EXCEPT !.hb = -1]
                                 ELSE IF r.m.ty = "1" THEN [Due(s, r.t, prev) EXCEPT !.tr = -1] ELSE Due(s, r.t, prev))
Spec == Init /\ [][Next]_vars
TraceAccepted == TLCGet("stats").diameter = Len(Trace) + 1
=============================================================================
