--------------------------- MODULE SessionTrace ---------------------------
(***************************************************************************)
(* Validation of executions recorded from the real session (harness/sess)  *)
(* against Session.  The trace is a concatenation of scenarios: an "init"  *)
(* record (configuration) followed by "step" records, one per action, each *)
(* carrying what the real code did in response: the messages that left on  *)
(* Outgoing() (tokenised digests with virtual timestamps), IsLogged(), the *)
(* session context, the notifications.                                     *)
(*                                                                         *)
(* Each step applies the corresponding Session operator to the spec state  *)
(* and compares.  A step the specification does not explain prints         *)
(*   "REJECT [property, scenario/step, reason, detail]"                    *)
(* tagged with the property whose statement the mismatch contradicts; the  *)
(* rest of that scenario is skipped (the spec state is no longer known)    *)
(* and validation continues with the next scenario.                        *)
(***************************************************************************)
EXTENDS Session, Json, SequencesExt

CONSTANT TraceFile
Trace == ndJsonDeserialize(TraceFile)

\* appr: a history monitor that does not depend on the specification state and therefore stays on while the rest of a scenario
\* is skipped: has a Logon that could be approved at all (well formed; for an acceptor also with acceptable credentials, heartbeat
\* interval and encryption method) been received since the session was created?  A session that reports itself logged on without
\* one violates C06 whatever else went wrong before.
\* ids: a second history monitor of the same kind (C05): from the first well-formed, numbered Logon on - approved or refused - an
\* accepting session knows its peer (it mirrors the identifiers of that Logon), an initiating one is configured with them: every
\* message it sends carries them.  (Not for the two-real-sessions traces "dx-", where the identifiers are the other way round.)
VARIABLES l, s, skip, appr, ids
vars == <<l, s, skip, appr, ids>>



GoodLogon(c, a) ==
  /\ a.a = "logon" /\ a.integ = "none" /\ a.sq = "ok"
  /\ (c.role = "acceptor" => a.cred /\ a.hb >= c.hbMin /\ a.hb <= c.hbMax /\ a.enc \in c.allowed)

Rej(prop, r, what, detail) ==
  PrintT("REJECT " \o ToJson(<<prop, r.id \o "#" \o ToString(r.i), what, detail>>))

OurId == <<83, 82, 86>>        \* "SRV"  (harness/sess: ourID)
PeerId == <<80, 69, 69, 82>>   \* "PEER"
KnowsPeer(c, a) == c.role = "initiator" \/ (a.a = "logon" /\ a.integ = "none" /\ a.sq = "ok")
IsDuplexTrace(r) == Len(r.id) >= 3 /\ SubSeq(r.id, 1, 3) = "dx-"
IdsOk(r, known) ==
  \* (what is retransmitted at the peer's request is not "sent through the session" anew: a shared store may hold another
  \*  session's messages under the requested numbers)
  (known /\ ~IsDuplexTrace(r) /\ r.a.a # "resend") =>
     ((\A j \in 1..Len(r.outs) : r.outs[j].sender = "SRV" /\ r.outs[j].target = "PEER")
        \/ Rej("C05", r, "a message does not carry the session's sender and target identifiers",
               [outs |-> [j \in 1..Len(r.outs) |-> <<r.outs[j].ty, r.outs[j].sender, r.outs[j].target>>]]))


CfgOf(c) == [role |-> c.role, hbMin |-> c.hbMin, hbMax |-> c.hbMax, hbCfg |-> c.hbCfg, encCfg |-> c.encCfg,
             allowed |-> ToSet(c.allowed), closeMs |-> c.closeMs, startSeq |-> c.startSeq]

\* observed digest -> Session!Msg
AsMsg(o) == [ty |-> o.ty, seq |-> o.seq, hb |-> o.hb, enc |-> o.enc, refSeq |-> o.refSeq, refTag |-> o.refTag,
             trid |-> o.trid, b |-> o.b, e |-> o.e, dupOf |-> o.dupOf, user |-> o.user, pass |-> o.pass]

\* what the properties fix about a message (R2): everything else is not compared
SeqNumTag == 34
MatchMsg(e, g) ==
  /\ e.ty = g.ty /\ e.seq = g.seq /\ e.dupOf = g.dupOf
  /\ (e.ty = "A" => e.hb = g.hb /\ e.enc = g.enc /\ e.user = g.user /\ e.pass = g.pass)
  \* (a Reject names the sequence-number tag when, and only when, that number itself is missing or not numeric)
  /\ (e.ty = "3" => (e.refSeq >= 0 => g.refSeq = e.refSeq) /\ (e.refTag >= 0 => g.refTag = e.refTag) /\ (e.refTag # SeqNumTag => g.refTag # SeqNumTag))
  /\ (e.ty = "0" => e.trid = g.trid)
  /\ (e.ty = "2" => e.b = g.b /\ e.e = g.e)

MatchSeq(exp, got) == Len(exp) = Len(got) /\ \A j \in 1..Len(exp) : MatchMsg(exp[j], got[j])

Brief(m) == [ty |-> m.ty, seq |-> m.seq, refSeq |-> m.refSeq, refTag |-> m.refTag, hb |-> m.hb,
             b |-> m.b, e |-> m.e, dupOf |-> m.dupOf, trid |-> m.trid, user |-> m.user, pass |-> m.pass]
BriefSeq(q) == [j \in 1..Len(q) |-> Brief(q[j])]

WatchedEvents == {"logon", "logout", "disconnect"}
EvNames(q) == SelectSeq([j \in 1..Len(q) |-> q[j].e], LAMBDA x : x \in WatchedEvents)

\* which property a mismatch at this action contradicts
TagOf(s0, a, kind) ==
  LET inbound == a.a \in {"logon", "logout", "hbt", "testreq", "resend", "app", "unknown"}
      sp == IF inbound THEN PreDispatch(s0, a) ELSE s0
  IN CASE inbound /\ ~Valid(a) /\ a.a \in {"logon", "logout", "hbt", "testreq", "resend"} -> "C16"
       [] a.a = "logon" -> IF kind = "gap" THEN "C10" ELSE IF IsLogged(sp) /\ a.sq # "ok" THEN "C16" ELSE "C06"
       [] a.a \in {"logout", "llogout", "stop"} -> IF a.a = "logout" /\ sp.st \notin {"SL", "WLO"} THEN "C16" ELSE "C15"
       [] a.a = "testreq" -> IF IsLogged(sp) THEN "C14" ELSE "C16"
       [] a.a = "hbt" -> "C16"
       [] a.a = "resend" -> IF IsLogged(sp) THEN "C10" ELSE "C16"
       [] a.a \in {"run", "relogon"} -> "C06"
       [] a.a = "send" -> "C05"
       [] OTHER -> IF ~s0.everLogged THEN "C07" ELSE "C06"

\* ---- lenient ResendRequest ranges (R2: the property only forbids going outside the range) ----
\* outs: strictly ascending numbers inside the requested range; a number this session sent is
\* retransmitted byte-identically, a number an earlier session left in a shared store is not
\* decided by any property
LenientResendOk(sp, a, outs) ==
  LET e1 == IF a.e = 0 THEN sp.outSeq ELSE a.e
      lo == IF a.b < 1 THEN 1 ELSE a.b
      hi == IF e1 > sp.outSeq THEN sp.outSeq ELSE e1
      own(n) == n <= Len(sp.store) /\ sp.store[n] # 0
  IN /\ \A j \in 1..Len(outs) :
          /\ outs[j].seq >= lo /\ outs[j].seq <= hi
          /\ IF own(outs[j].seq) THEN outs[j].dupOf = sp.store[outs[j].seq]
             ELSE outs[j].seq <= sp.cfg.startSeq
     /\ \A j \in 1..(Len(outs) - 1) : outs[j].seq < outs[j + 1].seq

AppendAll(sp, outs) == [sp EXCEPT !.sent = sp.sent \o [j \in 1..Len(outs) |-> AsMsg(outs[j])],
                                  !.lastOut = IF outs = <<>> THEN sp.lastOut ELSE sp.now]

\* after a difference in the messages sent: the specification's state change, but the messages and numbers that were really sent, so
\* that what the wrong step leads to later is still compared (and reported under the property it belongs to)
RECURSIVE EmitObserved(_, _, _)
EmitObserved(x, outs, j) ==
  IF j > Len(outs) THEN x
  ELSE LET m == AsMsg(outs[j])
       IN EmitObserved(IF m.dupOf = 0 THEN Emit(x, m) ELSE [x EXCEPT !.sent = Append(x.sent, m)], outs, j + 1)
Resync(x0, x1, outs) ==
  EmitObserved([x1 EXCEPT !.sent = x0.sent, !.outSeq = x0.outSeq, !.store = x0.store, !.lastOut = x0.lastOut, !.lastOutBefore = x0.lastOutBefore], outs, 1)

\* ---- SendingTime (C05): FIX timestamp format, taken at send time.  The drivers of harness/sess run on a virtual clock that starts
\* ---- at 2000-01-01 00:00:00 UTC: a first transmission stamped at virtual instant t (ms) carries exactly that instant.  (Traces
\* ---- recorded in real time, "w-", are checked for the format only.)
IsDigit(b) == b >= 48 /\ b <= 57
D2(q, i) == (q[i] - 48) * 10 + (q[i + 1] - 48)
D3(q, i) == (q[i] - 48) * 100 + (q[i + 1] - 48) * 10 + (q[i + 2] - 48)
TimeFormat(q) ==
  /\ Len(q) = 21
  /\ \A i \in {1, 2, 3, 4, 5, 6, 7, 8, 10, 11, 13, 14, 16, 17, 19, 20, 21} : IsDigit(q[i])
  /\ q[9] = 45 /\ q[12] = 58 /\ q[15] = 58 /\ q[18] = 46
  /\ D2(q, 5) \in 1..12 /\ D2(q, 7) \in 1..31 /\ D2(q, 10) \in 0..23 /\ D2(q, 13) \in 0..59 /\ D2(q, 16) \in 0..60
MsOfDay(q) == ((D2(q, 10) * 60 + D2(q, 13)) * 60 + D2(q, 16)) * 1000 + D3(q, 19)
VirtualDate == <<50, 48, 48, 48, 48, 49, 48, 49>>
IsWireTrace(r) == Len(r.id) >= 2 /\ SubSeq(r.id, 1, 2) = "w-"
TimesOk(r) ==
  \* (as for the identifiers: what is retransmitted at the peer's request is not stamped anew)
  r.a.a # "resend" => \A j \in 1..Len(r.outs) :
     LET o == r.outs[j]
     IN (o.dupOf = 0 /\ o.framed) =>
          ((TimeFormat(o.timeB) /\ ((~IsWireTrace(r) /\ o.t < 86400000) => (SubSeq(o.timeB, 1, 8) = VirtualDate /\ MsOfDay(o.timeB) = o.t)))
             \/ Rej("C05", r, "SendingTime is not the FIX timestamp of the instant at which the message was sent",
                    [ty |-> o.ty, seq |-> o.seq, sentAt |-> o.t, stamped |-> o.time]))

\* ---- monitors that hold in every step, whatever the action (evaluated on the observation) ----
Allowed07 == {"A", "5", "3"}
Monitor(s0, s1, r) ==
  /\ (\A j \in 1..Len(r.outs) : r.outs[j].framed)
       \/ (Rej("C01", r, "message on the wire is not correctly framed", [outs |-> BriefSeq(r.outs)]) /\ FALSE)
  /\ (~s1.everLogged /\ r.a.a # "send") =>
       ((\A j \in 1..Len(r.outs) : r.outs[j].ty \in Allowed07)
          \/ (Rej("C07", r, "message other than Logon/Logout/Reject sent before logon",
                  [action |-> r.a.a, outs |-> BriefSeq(r.outs)]) /\ FALSE))

\* ---- advancing virtual time: walk the timestamped outputs ----
\* res: [s, ok]
Bad(s0, prop, r, what, detail) == [s |-> s0, ok |-> Rej(prop, r, what, detail) /\ FALSE]

\* a timer loop that took its decision at the very instant the context was cancelled, or
\* that is still running while a local Logout waits for its answer
StaleTimers(x) == x.timers /\ ~LoggedOn(x) /\ ~x.ctxDone

\* deadlines strictly before t that passed without their event
MissedBefore(x, t) ==
  IF x.timers /\ ~x.ctxDone /\ LoggedOn(x) /\ HeartbeatDeadline(x) < t THEN "heartbeat"
  ELSE IF x.timers /\ ~x.ctxDone /\ x.st = "SL" /\ InboundDeadline(x) < t THEN "testrequest"
  ELSE IF x.timers /\ ~x.ctxDone /\ x.st = "WTR" /\ x.wtrLogged /\ InboundDeadline(x) < t THEN "disconnect"
  ELSE "none"

MissTag(m) == IF m = "heartbeat" THEN "C08" ELSE "C09"

DiscTime(r) == LET D == {j \in 1..Len(r.events) : r.events[j].e = "disconnect"}
               IN IF D = {} THEN -1 ELSE r.events[CHOOSE j \in D : TRUE].t

\* Time passes while the store refuses every Save: nothing the session tries to send leaves, so both timer loops are silent.  What
\* stays observable is what C09 demands whether or not the TestRequest could be sent: the disconnect after two silent periods (each
\* may be noticed one polling step late), and not before.
FailWalk(x, r, td, tEnd) ==
  LET T == TinMs(x)
      W == Win(TinMs(x))
      live == x.timers /\ ~x.ctxDone /\ x.st \in {"SL", "WTR"} /\ (x.st = "WTR" => x.wtrLogged)
      need == IF x.st = "SL" THEN 2 ELSE 1
      earliest == x.lastIn + need * T
      latest == x.lastIn + need * (T + W) + 2
  IN IF r.outs # <<>> THEN Bad(x, "C19", r, "a message was transmitted although the store refused to save it", [outs |-> BriefSeq(r.outs)])
     ELSE IF td >= 0 THEN
            IF live /\ td >= earliest /\ td <= latest
            THEN [s |-> [TimerDisconnect([x EXCEPT !.st = "WTR", !.wtrLogged = TRUE], td) EXCEPT !.now = tEnd], ok |-> TRUE]
            ELSE Bad(x, "C09", r, "disconnect although the peer was not silent for two periods (store failing)",
                     [at |-> td, lastIn |-> x.lastIn, st |-> x.st, earliest |-> earliest, latest |-> latest])
     ELSE IF live /\ tEnd > latest
            THEN Bad(x, "C09", r, "no disconnect although the peer was silent for two periods (the TestRequest could not be sent)",
                     [by |-> tEnd, lastIn |-> x.lastIn, st |-> x.st, latest |-> latest])
     ELSE IF live /\ x.st = "SL" /\ tEnd >= x.lastIn + T + W
            THEN [s |-> [x EXCEPT !.now = tEnd, !.st = "WTR", !.wtrLogged = TRUE, !.lastIn = x.lastIn + T, !.outSeq = x.outSeq + 1, !.nsaves = x.nsaves + 1], ok |-> TRUE]
     ELSE [s |-> [x EXCEPT !.now = tEnd], ok |-> TRUE]

RECURSIVE AdvWalk(_, _, _, _, _)
\* x: spec state; j: next output; td: pending disconnect time (-1: none); tEnd
AdvWalk(x, r, j, td, tEnd) ==
  LET nextT == IF j <= Len(r.outs) THEN r.outs[j].t ELSE tEnd + 1
  IN
  IF x.saveFailFrom > 0 /\ Failing(x) /\ j = 1 THEN FailWalk(x, r, td, tEnd)
  ELSE IF td >= 0 /\ td < nextT THEN
     \* the disconnect notification comes first
     LET m == MissedBefore(x, td)
     IN IF m # "none" /\ m # "disconnect" THEN Bad(x, MissTag(m), r, m \o " not sent in time", [deadlineBefore |-> td, lastOut |-> x.lastOut, lastIn |-> x.lastIn, hb |-> x.hb])
        ELSE IF DisconnectEnabled(x, td) THEN AdvWalk(TimerDisconnect(x, td), r, j, -1, tEnd)
        ELSE IF StaleTimers(x) THEN AdvWalk([x EXCEPT !.now = td, !.ctxDone = TRUE, !.timers = FALSE, !.st = "DIS"], r, j, -1, tEnd)
        ELSE Bad(x, "C09", r, "disconnect although the peer was not silent for two periods",
                 [at |-> td, lastIn |-> x.lastIn, st |-> x.st, hb |-> x.hb])
  ELSE IF j > Len(r.outs) THEN
     LET m == MissedBefore(x, tEnd)
     IN IF m # "none" THEN Bad(x, MissTag(m), r, m \o " not sent in time", [by |-> tEnd, lastOut |-> x.lastOut, lastIn |-> x.lastIn, hb |-> x.hb, st |-> x.st])
        ELSE LET x1 == [x EXCEPT !.now = tEnd]
             IN [s |-> IF x1.stopAt >= 0 /\ x1.stopAt <= tEnd THEN StopDeadline(x1, tEnd) ELSE x1, ok |-> TRUE]
  ELSE
     LET o == r.outs[j]
         t == o.t
         m == MissedBefore(x, t)
         \* stop deadline reached before this output
         x0 == IF x.stopAt >= 0 /\ x.stopAt <= t THEN StopDeadline(x, x.stopAt) ELSE x
     IN IF ~x.everLogged /\ o.ty \notin Allowed07 THEN
             Bad(x, "C07", r, "message other than Logon/Logout/Reject sent before logon", [action |-> "advance", outs |-> BriefSeq(r.outs), at |-> t])
        ELSE IF m # "none" THEN Bad(x, MissTag(m), r, m \o " not sent in time", [before |-> t, lastOut |-> x.lastOut, lastIn |-> x.lastIn, hb |-> x.hb, st |-> x.st])
        ELSE IF o.ty = "0" /\ o.trid = <<>> THEN
               IF HeartbeatEnabled(x0, t) THEN
                    LET x1 == TimerHeartbeat(x0, t)
                    IN IF MatchMsg(x1.sent[Len(x1.sent)], o) THEN AdvWalk(x1, r, j + 1, td, tEnd)
                       ELSE Bad(x, "C05", r, "timer heartbeat differs", [expected |-> Brief(x1.sent[Len(x1.sent)]), got |-> Brief(AsMsg(o))])
               ELSE IF StaleTimers(x0) \/ (x0.timers /\ x0.ctxDone /\ x0.ctxAt = t)
                    THEN AdvWalk(Emit([x0 EXCEPT !.now = t], AsMsg(o)), r, j + 1, td, tEnd)
               ELSE Bad(x, "C08", r, "unsolicited heartbeat sooner than the interval after the previous outbound message",
                        [at |-> t, lastOut |-> x0.lastOut, hb |-> x0.hb, st |-> x0.st, ctxDone |-> x0.ctxDone])
        ELSE IF o.ty = "1" THEN
               IF TestReqEnabled(x0, t) THEN
                    LET x1 == TimerTestRequest(x0, t)
                    IN IF MatchMsg([x1.sent[Len(x1.sent)] EXCEPT !.trid = o.trid], o) THEN AdvWalk(x1, r, j + 1, td, tEnd)
                       ELSE Bad(x, "C05", r, "timer test request differs", [expected |-> Brief(x1.sent[Len(x1.sent)]), got |-> Brief(AsMsg(o))])
               ELSE IF StaleTimers(x0) \/ (x0.timers /\ ~x0.ctxDone /\ x0.st = "WLO" /\ t - x0.lastIn >= TinMs(x0))
                    THEN AdvWalk(Emit([x0 EXCEPT !.now = t, !.staleTR = TRUE], AsMsg(o)), r, j + 1, td, tEnd)
               ELSE Bad(x, "C09", r, "test request although the peer was not silent for the inbound timeout",
                        [at |-> t, lastIn |-> x0.lastIn, hb |-> x0.hb, st |-> x0.st])
        ELSE Bad(x, "C08", r, "unexpected message while time passes", [got |-> Brief(AsMsg(o)), at |-> t])

\* ---- one step ----
StepResult(s0, r) ==
  LET a == r.a
      x0 == [s0 EXCEPT !.now = r.t]
  IN
  IF a.a = "advance" THEN
     LET w == AdvWalk(x0, r, 1, DiscTime(r), r.t + a.ms)
         m1 == IF r.logged # IsLogged(w.s)
               THEN Rej(IF w.s.st = "DIS" \/ r.logged THEN "C09" ELSE "C06", r, "IsLogged differs after time passed", [got |-> r.logged, st |-> w.s.st])
               ELSE TRUE
         m2 == IF r.ctx # w.s.ctxDone
               THEN Rej(IF s0.stopAt >= 0 THEN "C15" ELSE "C09", r, "session context state differs after time passed",
                        [got |-> r.ctx, expected |-> w.s.ctxDone, stopAt |-> s0.stopAt, tEnd |-> r.t + a.ms])
               ELSE TRUE
     IN IF ~w.ok THEN w
        ELSE [s |-> w.s, ok |-> (m1 \in BOOLEAN) /\ (m2 \in BOOLEAN)]
  ELSE
     LET inbound == a.a \in {"logon", "logout", "hbt", "testreq", "resend", "app", "unknown"}
         sp == IF inbound THEN PreDispatch(x0, a) ELSE x0
         lenient == a.a = "resend" /\ Valid(a) /\ IsLogged(sp)
                      /\ ~ResendRangeOk(sp, a.b, IF a.e = 0 THEN sp.outSeq ELSE a.e)
         x1raw == CASE a.a = "run" -> Run(x0)
                    [] a.a = "relogon" -> Relogon(x0)
                    \* the application rewinds the outgoing counter: numbers are used again, a retransmission gives what was LAST sent
                    \* under a number (Emit overwrites the store entry)
                    [] a.a = "resetout" -> [x0 EXCEPT !.outSeq = 0]
                    \* the application unregisters handlers of its own: nothing changes for the session
                    [] a.a = "rmhooks" -> x0
                    [] a.a = "send" -> AppSend(x0)
                    [] a.a = "llogout" -> LocalLogout(x0)
                    [] a.a = "stop" -> Stop(x0)
                    [] lenient -> IF LenientResendOk(sp, a, r.outs) THEN AppendAll(sp, r.outs) ELSE sp
                    [] OTHER -> Recv(x0, a)
         \* an inbound message delivered while the local call's own message was still inside the send path: the call's
         \* state change and message come first, then the inbound message is processed (sequential composition)
         midAct == [a EXCEPT !.a = a.mid, !.seq = a.midSeq, !.id = <<77>>]
         x1 == IF a.mid # "" /\ a.a \in {"send", "llogout"} THEN Recv(x1raw, midAct) ELSE x1raw
         exp == SubSeq(x1.sent, Len(x0.sent) + 1, Len(x1.sent))
         gapOnly == a.a = "logon" /\ Len(exp) = Len(r.outs) /\ Len(exp) >= 1
                      /\ MatchSeq(SubSeq(exp, 1, Len(exp) - 1), SubSeq(r.outs, 1, Len(exp) - 1))
                      /\ exp[Len(exp)].ty = "2"
         tag == TagOf(x0, a, IF gapOnly THEN "gap" ELSE "x")
         evOk == (s0.stopAt >= 0 \/ a.a = "stop" \/ s0.ctxDone)   \* Stop() clears every registered callback, the harness' too (with a close
                                                                  \* timeout of 0 the context is cancelled at once and no deadline is pending)
                   \/ EvNames(r.events) = SelectSeq(SubSeq(x1.events, Len(x0.events) + 1, Len(x1.events)), LAMBDA e : e \in WatchedEvents)
         \* Observations that do not feed back into what the specification expects next (IsLogged, the context, the notifications) are
         \* reported and the walk CONTINUES with the specification's state: what a wrong state leads to later (a second Logout, a
         \* disconnect one period early) is then reported under the property it belongs to.  After a difference in the messages sent
         \* the walk continues from the specification's state with the observed messages (Resync).
         n1 == IF r.logged /\ ~IsLogged(x1)
               THEN Rej("C06", r, "session reports itself logged on without a valid Logon exchange",
                        [action |-> a.a, st |-> x0.st, got |-> r.logged, expected |-> IsLogged(x1), outs |-> BriefSeq(r.outs),
                         afterStaleTestRequest |-> x0.staleTR])
               ELSE TRUE
         \* "any inbound message of any type cancels the pending disconnect": the session is logged on again
         n2 == IF ~r.logged /\ IsLogged(x1)
               THEN Rej(IF x0.st = "WTR" /\ inbound THEN "C09" ELSE IF tag \in {"C14", "C10", "C05", "C07"} THEN "C06" ELSE tag, r, "IsLogged differs",
                        [action |-> a.a, st |-> x0.st, got |-> r.logged, expected |-> IsLogged(x1)])
               ELSE TRUE
         n3 == IF r.ctx # x1.ctxDone
               THEN Rej(IF x0.stopAt >= 0 \/ a.a = "stop" THEN "C15" ELSE "C16", r, "session context state differs",
                        [action |-> a.a, st |-> x0.st, got |-> r.ctx, expected |-> x1.ctxDone, stopAt |-> x0.stopAt, now |-> x0.now])
               ELSE TRUE
         n4 == IF ~evOk
               THEN Rej(IF a.a \in {"logout", "llogout", "stop"} THEN "C15" ELSE "C06", r, "notifications differ",
                        [action |-> a.a, got |-> EvNames(r.events), st |-> x0.st])
               ELSE TRUE
     IN IF ~Monitor(x0, x1, r) THEN [s |-> x1, ok |-> FALSE]
        ELSE IF (n1 \in BOOLEAN) /\ ~MatchSeq(exp, r.outs) THEN
               [s |-> Resync(x0, x1, r.outs),
                ok |-> Rej(tag, r, "messages sent in response differ",
                           [action |-> a.a, integ |-> a.integ, sq |-> a.sq, st |-> x0.st, expected |-> BriefSeq(exp), got |-> BriefSeq(r.outs)])
                       \* a damaged Logon received by a session that is waiting for one is C16's business and C06's ("any other Logon ...
                       \* is answered by a Reject that references the Logon's sequence number")
                       /\ (IF a.a = "logon" /\ tag = "C16" /\ x0.st \in {"WL", "WLA"}
                           THEN Rej("C06", r, "messages sent in response differ",
                                    [action |-> a.a, integ |-> a.integ, sq |-> a.sq, st |-> x0.st, expected |-> BriefSeq(exp), got |-> BriefSeq(r.outs)])
                           ELSE TRUE)
                       \* "a session that sent the Logout itself does not send a second one" (C15) - whatever made it do so (also a
                       \* retransmission of its own Logout while the answer is awaited)
                       /\ (IF x0.st = "WLO" /\ Len(SelectSeq(r.outs, LAMBDA o : o.ty = "5")) > Len(SelectSeq(exp, LAMBDA o : o.ty = "5")) /\ tag # "C15"
                           THEN Rej("C15", r, "messages sent in response differ",
                                    [action |-> a.a, integ |-> a.integ, sq |-> a.sq, st |-> x0.st, expected |-> BriefSeq(exp), got |-> BriefSeq(r.outs)])
                           ELSE TRUE)
                       \* "valid messages that follow are processed normally" (C16): a valid ResendRequest whose range holds the
                       \* Reject of an earlier invalid message is answered with what was sent under those numbers, the Reject included
                       /\ (IF a.a = "resend" /\ tag = "C10" /\ (\E j \in 1..Len(exp) : exp[j].ty = "3")
                           THEN Rej("C16", r, "messages sent in response differ",
                                    [action |-> a.a, integ |-> a.integ, sq |-> a.sq, st |-> x0.st, expected |-> BriefSeq(exp), got |-> BriefSeq(r.outs)])
                           ELSE TRUE)
                       /\ (n2 \in BOOLEAN) /\ (n3 \in BOOLEAN) /\ (n4 \in BOOLEAN)]
        ELSE [s |-> x1, ok |-> (n2 \in BOOLEAN) /\ (n3 \in BOOLEAN) /\ (n4 \in BOOLEAN)]

Dummy == InitState([role |-> "acceptor", hbMin |-> 1, hbMax |-> 1, hbCfg |-> 1, encCfg |-> "0", allowed |-> {"0"}, closeMs |-> 0, startSeq |-> 0])

Init == l = 1 /\ s = Dummy /\ skip = FALSE /\ appr = FALSE /\ ids = FALSE

Next ==
  /\ l <= Len(Trace)
  /\ l' = l + 1
  /\ LET r == Trace[l]
     IN IF r.k = "init" THEN s' = [InitState(CfgOf(r.cfg)) EXCEPT !.saveFailFrom = r.cfg.saveFailFrom, !.saveFailOnly = r.cfg.saveFailOnly, !.ctrFailOnly = r.cfg.ctrFailOnly, !.imposeHb = r.cfg.imposeHb,
                                                              !.user = IF r.cfg.creds \in {"", "useronly"} THEN CfgUser ELSE "",
                                                              !.pass = IF r.cfg.creds \in {"", "passonly"} THEN CfgPass ELSE ""] /\ skip' = FALSE /\ appr' = FALSE /\ ids' = FALSE
        ELSE /\ appr' = (appr \/ GoodLogon(s.cfg, r.a))
             \* (an accepting session adopts the identifiers when it handles the Logon while waiting for one)
             /\ ids' = (ids \/ (KnowsPeer(s.cfg, r.a) /\ (s.cfg.role = "initiator" \/ (~skip /\ s.st = "WL"))))
             /\ (IdsOk(r, ids') \in BOOLEAN)
             /\ (TimesOk(r) \in BOOLEAN)
             /\ IF skip
                THEN /\ UNCHANGED <<s, skip>>
                     /\ ((IF r.logged /\ ~appr'
                          THEN Bad(s, "C06", r, "session reports itself logged on although no Logon that could be approved was ever received",
                                   [action |-> r.a.a, afterEarlierRejection |-> TRUE]).ok
                          ELSE TRUE) \in BOOLEAN)
                ELSE LET res == StepResult(s, r)
                     IN s' = res.s /\ skip' = ~res.ok

Spec == Init /\ [][Next]_vars

TraceAccepted == TLCGet("stats").diameter = Len(Trace) + 1
=============================================================================
