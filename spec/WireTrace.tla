----------------------------- MODULE WireTrace -----------------------------
(***************************************************************************)
(* The observable side of SendPath (C05): what a session put on the wire   *)
(* during one execution (forced gate schedule, or free-running senders +   *)
(* inbound replies + timers in virtual time), as captured on the peer side *)
(* of Outgoing() and split by the harness' independent tokenizer.          *)
(***************************************************************************)
EXTENDS Integers, Sequences, FiniteSets, TLC, Json, SequencesExt

CONSTANT TraceFile
Trace == ndJsonDeserialize(TraceFile)
VARIABLE l

Rej(r, what, detail) == PrintT("REJECT " \o ToJson(<<"C05", r.id, what, detail>>)) /\ FALSE
RejP(prop, r, what, detail) == PrintT("REJECT " \o ToJson(<<prop, r.id, what, detail>>)) /\ FALSE

IsDigit(b) == b >= 48 /\ b <= 57
D2(s, i) == (s[i] - 48) * 10 + (s[i + 1] - 48)
D3(s, i) == (s[i] - 48) * 100 + (s[i + 1] - 48) * 10 + (s[i + 2] - 48)
\* YYYYMMDD-HH:MM:SS.sss
TimeFormat(s) ==
  /\ Len(s) = 21
  /\ \A i \in {1, 2, 3, 4, 5, 6, 7, 8, 10, 11, 13, 14, 16, 17, 19, 20, 21} : IsDigit(s[i])
  /\ s[9] = 45 /\ s[12] = 58 /\ s[15] = 58 /\ s[18] = 46
  /\ D2(s, 5) \in 1..12 /\ D2(s, 7) \in 1..31 /\ D2(s, 10) \in 0..23 /\ D2(s, 13) \in 0..59 /\ D2(s, 16) \in 0..60
\* milliseconds since midnight
MsOfDay(s) == ((D2(s, 10) * 60 + D2(s, 13)) * 60 + D2(s, 16)) * 1000 + D3(s, 19)
\* the virtual clock of a bubble starts at 2000-01-01 00:00:00 UTC
VirtualDate == <<50, 48, 48, 48, 48, 49, 48, 49>>

Firsts(q) == SelectSeq(q, LAMBDA m : m.dupOf = 0)

Check(r) ==
  LET F == Firsts(r.msgs)
      bad == {j \in 1..Len(F) : F[j].seq # r.start + j}
      j0 == IF bad = {} THEN 0 ELSE CHOOSE j \in bad : \A k \in bad : j <= k
      apps == SelectSeq(r.msgs, LAMBDA m : m.ty = "V" /\ m.dupOf = 0)
      \* every clause is evaluated (a failing one must not hide the others: "\in BOOLEAN" forces the evaluation)
      c1 == (bad = {} \/ Rej(r, "outbound sequence numbers on the wire are not consecutive",
                         [position |-> j0, expected |-> r.start + j0, got |-> F[j0].seq, kind |-> r.kind, gate |-> r.gate,
                          order |-> r.order, seqs |-> [j \in 1..Len(F) |-> F[j].seq]]))
      c2 == (Len(apps) = r.expected \/ Rej(r, "number of application messages on the wire differs from the number sent",
                                      [got |-> Len(apps), expected |-> r.expected, kind |-> r.kind]))
      \* (C14) the Heartbeats that echo the peer's TestReqIDs "qNNN" leave in the order in which the requests came (ascending NNN),
      \* each once - also when they had to wait in a full queue behind a transport that was blocked
      E == SelectSeq(r.msgs, LAMBDA m : m.ty = "0" /\ m.dupOf = 0 /\ Len(m.trid) = 4 /\ m.trid[1] = 113)
      num(m) == (m.trid[2] - 48) * 100 + (m.trid[3] - 48) * 10 + (m.trid[4] - 48)
      c3 == ((\A j \in 1..(Len(E) - 1) : num(E[j]) < num(E[j + 1]))
             \/ RejP("C14", r, "Heartbeats echoing TestReqIDs leave in another order than the TestRequests arrived, or twice",
                     [order |-> [j \in 1..Len(E) |-> num(E[j])]]))
      c4 == ((\A j \in 1..Len(r.msgs) : r.msgs[j].sender = r.expSender /\ r.msgs[j].target = r.expTarget)
           \/ Rej(r, "sender / target identifiers differ from the session's", [kind |-> r.kind]))
      c5 == ((\A j \in 1..Len(r.msgs) : TimeFormat(r.msgs[j].time))
           \/ Rej(r, "SendingTime is not in FIX timestamp format", [kind |-> r.kind]))
      c6 == ((r.virtual => \A j \in 1..Len(F) :
            (F[j].t < 86400000 /\ TimeFormat(F[j].time)) => (SubSeq(F[j].time, 1, 8) = VirtualDate /\ MsOfDay(F[j].time) = F[j].t))
           \/ Rej(r, "SendingTime was not taken at send time", [kind |-> r.kind]))
      \* (C14) on a connection of an application whose sessions share what the API lets them share (options value, unmarshaller):
      \* every echo is one of THIS connection's TestReqIDs, in the order they were sent
      c7 == (Len(r.expEcho) = 0 \/ (\A j \in 1..Len(E) : j <= Len(r.expEcho) /\ num(E[j]) = r.expEcho[j])
             \/ RejP("C14", r, "a Heartbeat echoes a TestReqID that was not sent on this connection, or not at that point",
                     [got |-> [j \in 1..Len(E) |-> num(E[j])], sent |-> r.expEcho]))
      \* (C01) whatever else is going on (senders, retransmissions, timers at the same time): every message on the wire is framed
      c8 == ((\A j \in 1..Len(r.msgs) : r.msgs[j].framed)
             \/ RejP("C01", r, "a message on the wire is not correctly framed (BodyLength / CheckSum disagree with its bytes)",
                     [kind |-> r.kind, at |-> CHOOSE j \in 1..Len(r.msgs) : ~r.msgs[j].framed, seq |-> r.msgs[CHOOSE j \in 1..Len(r.msgs) : ~r.msgs[j].framed].seq]))
  IN (c1 \in BOOLEAN) /\ (c2 \in BOOLEAN) /\ (c3 \in BOOLEAN) /\ (c4 \in BOOLEAN) /\ (c5 \in BOOLEAN) /\ (c6 \in BOOLEAN) /\ (c7 \in BOOLEAN) /\ (c8 \in BOOLEAN)

Init == l = 1
Next == l <= Len(Trace) /\ (Check(Trace[l]) \in BOOLEAN) /\ l' = l + 1
Spec == Init /\ [][Next]_l
TraceAccepted == TLCGet("stats").diameter = Len(Trace) + 1
=============================================================================
