#!/bin/bash
# tools/benigntest.sh <name> <patch> [<prop>...]
# false-alarm test: applies a property-preserving change to a scratch copy of /repo and runs the quick tier of every
# check (or of the listed ones) from a scratch copy of /verif against it.  Expected: every check exits 0.
set -u
name=$1; patch=$(readlink -f $2); shift 2
props=${@:-C01 C02 C03 C04 C05 C06 C07 C08 C09 C10 C11 C12 C13 C14 C15 C16 C17 C18 C19 C20}
export GOFLAGS=-mod=mod GOPROXY=off GOSUMDB=off GOCACHE=/verif/out/gocache
out=/verif/seeded/benign-$name
mkdir -p $out
cp $patch $out/patch.diff
scratch=$(mktemp -d /tmp/bt-$name-XXXX)
git -C /repo worktree add -q --detach $scratch/repo HEAD || exit 2
trap 'git -C /repo worktree remove --force $scratch/repo; rm -rf $scratch' EXIT
git -C $scratch/repo apply $patch || { echo "PATCH DOES NOT APPLY"; exit 2; }
(cd $scratch/repo && go build ./... && go build -tags verif ./...) || { echo "BUILD FAILS"; exit 2; }
suite=$(cd $scratch/repo && go test -vet=off -count=1 ./... 2>&1 | grep -v "no test files" | grep -c "^FAIL\|^panic")
echo "suite failures with patch: $suite" | tee $out/result.txt
rsync -a --exclude out --exclude .git --exclude seeded /verif/ $scratch/verif/
cd $scratch/verif
for p in $props; do
  VERIF_REPO=$scratch/repo timeout 1500 bin/check $p quick > $out/check_$p.log 2>&1; rc=$?
  echo "$p exit=$rc $(grep -c '^VIOLATION' $out/check_$p.log) violations $(grep -c '^KNOWN-FINDING' $out/check_$p.log) known" | tee -a $out/result.txt
done
