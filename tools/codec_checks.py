"""Codec family: C01 C02 C03 C11 C17 C18.
Pipeline per property: (1) TLC exhaustive model check of MCFixWire for the property's families
(spec-level check of the property + emission of every case as JSON); (2) the cases are replayed on
the real encoder/decoder by harness/cmd/wiredrv, which also adds its own generated families;
(3) the recorded observations are validated by TLC against FixWireTrace; (4) verdict from the
REJECT lines of this property only (R2)."""
import json, os
from vlib import *

MODS = ["FixWire.tla", "MCFixWire.tla", "FixWireTrace.tla"]

# property -> (MC families quick, MC families thorough, gen families, n quick, n thorough)
PLAN = {
    "C01": dict(mc_q=[("flat", 4), ("parts", 8)], mc_t=[("flat", 1), ("parts", 1), ("group", 1)],
                gen="cases,trailer,sized,wrap", nq=150, nt=1500, inv="InvCase"),
    "C17": dict(mc_q=[("flat", 4), ("group", 8)], mc_t=[("flat", 1), ("parts", 1), ("group", 1), ("nested", 1)],
                gen="cases,trailer,empty,values", nq=150, nt=1500, inv="InvCase"),
    "C02": dict(mc_q=[("group", 8), ("nested", 8)], mc_t=[("flat", 1), ("group", 1), ("nested", 1)],
                gen="cases", nq=200, nt=2500, inv="InvCase"),
    "C18": dict(mc_q=[("flat", 4), ("group", 8), ("nested", 8)], mc_t=[("flat", 1), ("group", 1), ("nested", 1), ("parts", 1)],
                gen="look", nq=200, nt=2500, inv="InvCase"),
    "C03": dict(mc_q=[("flat", 16)], mc_t=[("flat", 1), ("group", 4)],
                gen="cases,look,damage,raw", nq=40, nt=300, inv="InvCase InvDamage"),
    "C11": dict(mc_q=[("flat", 16)], mc_t=[("flat", 2)],
                gen="raw", nq=4000, nt=100000, inv="InvCase"),
}


def mc_cfg(family, slice_, of, inv):
    return ("SPECIFICATION Spec\nCONSTANTS\n Family = \"%s\"\n Slice = %d\n Of = %d\n"
            "INVARIANTS %s\nCHECK_DEADLOCK FALSE\n" % (family, slice_, of, inv))


def trace_cfg(path):
    return ("SPECIFICATION Spec\nCONSTANT TraceFile = \"%s\"\nPOSTCONDITION TraceAccepted\n"
            "CHECK_DEADLOCK FALSE\n" % path)


def count_lines(p):
    n = 0
    with open(p) as f:
        for _ in f:
            n += 1
    return n


def validate(run, obs_path, name):
    """TLC trace validation of one ndjson file; returns all REJECT entries."""
    n = count_lines(obs_path)
    if n == 0:
        return []
    res = tlc("FixWireTrace", trace_cfg(obs_path), run.sub("tv-" + name), ["FixWire.tla", "FixWireTrace.tla"],
              workers=1, timeout=3600, heap="12g")
    if not res.ok:
        raise Inconclusive("trace validation %s failed: %s\n%s" % (name, res.error, res.raw_tail[-2000:]))
    if res.depth != n + 1:
        raise Inconclusive("trace validation %s consumed %d of %d records" % (name, res.depth - 1, n))
    spec_errs = split_lines(res, "SPECERR")
    if spec_errs:
        raise Inconclusive("SPEC-ERROR in trace validation %s: %s" % (name, json.dumps(spec_errs[:3])[:800]))
    run.records += n
    run.traces += n
    run.states += res.distinct
    run.transitions += res.generated
    return split_lines(res, "REJECT")


def find_record(obs_paths, rid):
    for p in obs_paths:
        with open(p) as f:
            for line in f:
                if ('"id":"%s"' % rid) in line:
                    try:
                        r = json.loads(line)
                    except Exception:
                        continue
                    if r.get("id") == rid:
                        return r
    return None


def show(b):
    return bytes(b).decode("latin1").replace("\x01", "|")


def check(prop, tier, seed):
    plan = PLAN[prop]
    run = Run(prop, tier, seed)
    drv = go_build("./cmd/wiredrv", "wiredrv")
    quick = tier == "quick"
    obs_files = []

    # (1) model check + case emission
    cases_path = os.path.join(run.dir, "tlc-cases.ndjson")
    ncases = 0
    with open(cases_path, "w") as cf:
        for fam, of in (plan["mc_q"] if quick else plan["mc_t"]):
            sl = seed % of
            res = tlc("MCFixWire", mc_cfg(fam, sl, of, plan["inv"]), run.sub("mc-" + fam), ["FixWire.tla", "MCFixWire.tla"],
                      workers=NCPU, timeout=3000, heap="16g")
            fails = split_lines(res, "MODEL-FAIL")
            if fails or not res.ok:
                raise Inconclusive("SPEC-ERROR: MCFixWire family %s: %s %s\n%s" % (fam, res.error, str(fails)[:500], res.raw_tail[-1500:]))
            run.add_mc(res, "MCFixWire family=%s slice=%d/%d invariants=%s" % (fam, sl, of, plan["inv"]))
            for c in split_lines(res, "CASE"):
                cf.write(json.dumps(c) + "\n")
                ncases += 1
                if len(run.samples) < 2:
                    run.samples.append({"tlc_case": c["id"], "wire_expected_by_spec": "see FixWire!Wire", "m": c["m"]})
    run.extra["tlc_cases_replayed"] = ncases

    # (1b) C11 / C03 / C18: every short byte string, raw and framed by the spec, through the transcribed decoder (Decoder.tla)
    if prop in ("C11", "C03", "C18"):
        maxlen, of = (5, 3) if quick else (7, 16)
        if prop != "C11":
            maxlen, of = (5, 6) if quick else (6, 8)
        cfgd = ("SPECIFICATION Spec\nCONSTANTS\n MaxLen = %d\n Slice_ = %d\n Of_ = %d\nINVARIANT Inv\nCHECK_DEADLOCK FALSE\n" % (maxlen, seed % of, of))
        resd = tlc("MCDecoder", cfgd, run.sub("mc-decoder"), ["FixWire.tla", "Decoder.tla", "MCDecoder.tla"], workers=NCPU, timeout=3000, heap="16g")
        failsd = split_lines(resd, "MODEL-FAIL")
        if failsd or not resd.ok:
            raise Inconclusive("SPEC-ERROR: MCDecoder: %s %s\n%s" % (resd.error, str(failsd)[:500], resd.raw_tail[-1500:]))
        run.add_mc(resd, "MCDecoder MaxLen=%d slice=%d/%d: NoOOB / termination of the transcribed decoder, lookup = field-boundary semantics" % (maxlen, seed % of, of))
        raws = split_lines(resd, "RAW")
        tmpl = {"tags": {"bs": [48], "bl": [57], "mt": [49, 49], "cs": [49, 48]}, "beginString": [70], "msgType": [48],
                "header": [{"k": "kv", "tag": [57, 49], "ty": "string", "pop": False, "txt": [], "via": ""}],
                "body": [{"k": "grp", "tag": [49], "tmpl": [{"k": "kv", "tag": [49, 57], "ty": "string", "pop": False, "txt": [], "via": ""},
                                                            {"k": "kv", "tag": [57, 57], "ty": "int", "pop": False, "txt": [], "via": ""}], "entries": []},
                         {"k": "kv", "tag": [57, 48], "ty": "string", "pop": False, "txt": [], "via": ""}],
                "trailer": []}
        rawcases = os.path.join(run.dir, "tlc-raw.ndjson")
        pred = {}
        with open(rawcases, "w") as f:
            for r in raws:
                for suffix, key, pk in (("", "input", "implValid"), ("/framed", "framed", "implValidFramed")):
                    rid = r["id"] + suffix
                    f.write(json.dumps({"id": rid, "tmpl": tmpl, "input": r[key], "lookup": [49, 48]}) + "\n")
                    pred[rid + "/strict"] = r[pk]
        obsr = os.path.join(run.dir, "obs-tlc-raw.ndjson")
        sh([drv, "-mode", "rawreplay", "-cases", rawcases, "-out", obsr], timeout=3000)
        obs_files.append(obsr)
        drift = 0
        with open(obsr) as f:
            for line in f:
                o = json.loads(line)
                if o["id"] in pred and not pred[o["id"]] and o["outcome"] == "ok":
                    drift += 1
        run.extra["decoder_strings_replayed"] = 2 * len(raws)
        run.extra["model_conformance"] = {"transcribed validateRaw rejects but the real decoder accepts (CONFORMANCE-DRIFT)": drift}
        if drift:
            run.notes.append("CONFORMANCE-DRIFT: %d strings are accepted by the real decoder although Decoder.tla!ValidateRaw rejects them (the transcription no longer mirrors the code)" % drift)

    # (2) replay on the real code + generated families
    if prop not in ("C11",):
        obs1 = os.path.join(run.dir, "obs-tlc.ndjson")
        fam = "damage" if prop == "C03" else ("late" if prop in ("C17", "C02") else "none")
        sh([drv, "-mode", "replay", "-cases", cases_path, "-out", obs1, "-families", fam], timeout=3000)
        obs_files.append(obs1)
    obs2 = os.path.join(run.dir, "obs-gen.ndjson")
    n = plan["nq"] if quick else plan["nt"]
    cmd = [drv, "-mode", "gen", "-seed", str(seed), "-n", str(n), "-families", plan["gen"], "-out", obs2]
    if prop == "C03" and not quick:
        cmd.append("-fulldamage")
    sh(cmd, timeout=3000)
    obs_files.append(obs2)

    # (3) validate, (4) verdict from this property's REJECT lines
    rejects = []
    others = {}
    for i, p in enumerate(obs_files):
        for r in validate(run, p, "obs%d" % i):
            if r[0] == prop:
                rejects.append(r)
            else:
                others[r[0]] = others.get(r[0], 0) + 1
    if others:
        run.notes.append("rejections belonging to other properties in the same traces (decided by their own checks): %s" % json.dumps(others))
    if prop == "C18":
        # end-of-message detection on a connection (the CheckSum tag inside values / as a tag suffix, long fields)
        import framing_checks
        brej, bscns = framing_checks.boundary_rejects(run, seed, quick)
        for r in brej:
            rejects.append(["C18", r[1], "message boundaries delivered by a connection differ from the messages sent", r[3]])
        run.extra["connection_boundary_scenarios"] = len(bscns)
    viol, kn = classify(prop, rejects)
    run.add_known(kn)
    seen = set()
    for r in viol:
        key = (r[1], r[2])
        if key in seen or len(run.violations) >= 10:
            continue
        seen.add(key)
        rec = find_record(obs_files, r[1])
        rp = {"property": prop, "kind": "codec", "reject": r, "record": rec}
        if rec and "wire" in rec:
            rp["wire_text"] = show(rec["wire"])
        if rec and "input" in rec:
            rp["input_text"] = show(rec["input"])
        run.violation(r, rp)
    if len(viol) > len(run.violations):
        run.notes.append("%d rejected records in total for this property" % len(viol))
    # a sample of what was validated
    with open(obs_files[-1]) as f:
        for line in f:
            r = json.loads(line)
            s = {"id": r.get("id"), "kind": r.get("k")}
            if "wire" in r:
                s["wire"] = show(r["wire"])[:300]
            if "input" in r:
                s["input"] = show(r["input"])[:200]
                s["outcome"] = r.get("outcome")
            if "ops" in r:
                s["ops"] = [o["op"] for o in r["ops"]]
            run.samples.append(s)
            if len(run.samples) >= 5:
                break
    run.assumptions = [
        "canonical text of int/uint/float/time values is computed by Go strconv/time in the harness (TLC has 32-bit integers, no floats)",
        "TLC and the CommunityModules Json module are trusted to evaluate FixWire on the recorded bytes",
        "cases are built only through the library's public constructors/setters/parsers (NewKeyValue, NewGroup, NewComponent, NewMessage, value New*/Set/FromBytes)",
    ]
    rule = ("cases = TLC-enumerated templates x populations x values of MCFixWire (families %s) replayed on the real code, plus seeded "
            "generated families [%s] (n=%d); each observation record is one trace step validated by FixWireTrace; a case is distinct by id "
            "and non-trivial when it serializes at least one populated field" % (
                ",".join(f for f, _ in (plan["mc_q"] if quick else plan["mc_t"])), plan["gen"], n))
    return run.finish(rule, exhaustive=False)


def replay(obj):
    """Re-execute a codec replay file: re-run the recorded case on the current tree and re-validate."""
    rec = obj.get("record") or {}
    run = Run(obj["property"], "replay", 0)
    drv = go_build("./cmd/wiredrv", "wiredrv")
    if rec.get("k") == "case":
        case = {"id": rec["id"], "m": rec["m"], "lookalike": rec.get("lookalike", False),
                "lookups": [l["tag"] for l in rec.get("lookups", [])], "noparse": not rec.get("parsed", True)}
        if not rec.get("sameTemplate", True):
            case["target"] = rec["target"]
        cp = os.path.join(run.dir, "case.ndjson")
        with open(cp, "w") as f:
            f.write(json.dumps(case) + "\n")
        obs = os.path.join(run.dir, "obs.ndjson")
        sh([drv, "-mode", "replay", "-cases", cp, "-out", obs, "-families", "none"], timeout=600)
        rej = validate(run, obs, "replay")
        print("replay of %s: wire=%s" % (rec["id"], obj.get("wire_text", "")))
        for r in rej:
            print("  REJECT", json.dumps(r)[:500])
        return 1 if any(r[0] == obj["property"] for r in rej) else 0
    print("replay: record kind %s is re-executed by re-running the check with the same seed; record follows" % rec.get("k"))
    print(json.dumps(obj)[:3000])
    return 1
