"""C19: Dispatch.tla / MCDispatch.tla / DispatchTrace.tla bound to the real DefaultHandler + Session
by harness/sess/dispatch.go (recording handlers, a MessageStorage wrapper that fails on the k-th save)."""
import json, random
from vlib import *
import session_checks as sc

PROPS = ["C19"]


def check(prop, tier, seed):
    run = Run(prop, tier, seed)
    quick = tier == "quick"
    rnd = random.Random(seed)
    binp = go_test_build("./sess/", "sess.test")
    maxh, maxf = (2, 2) if quick else (3, 4)
    cfg = ("SPECIFICATION Spec\nCONSTANTS\n MaxHandlers = %d\n MaxFail = %d\nINVARIANTS InvRefusal InvOrder EmitScn\nCHECK_DEADLOCK FALSE\n" % (maxh, maxf))
    res = tlc("MCDispatch", cfg, run.sub("mc"), ["Dispatch.tla", "MCDispatch.tla"], workers=NCPU, timeout=1500, heap="8g")
    run.add_mc(res, "MCDispatch handlers<=%d saveFailAt<=%d (InvRefusal InvOrder)" % (maxh, maxf))
    confs = split_lines(res, "SCN")
    keep = 700 if quick else 12000
    exhaustive = len(confs) <= keep
    if not exhaustive:
        confs = rnd.sample(confs, keep)
    # deeper random configurations (more handlers than the exhaustive bound)
    for _ in range(100 if quick else 2000):
        hs = []
        for i in range(rnd.randint(3, 6)):
            if rnd.random() < 0.65:
                hs.append(dict(id=i + 1, dir="out", ty=rnd.choice(["ALL", "V", "0"]), accept=rnd.random() < 0.8, when=rnd.choice(["pre", "post"]), mutate=rnd.random() < 0.3))
            else:
                hs.append(dict(id=i + 1, dir="in", ty=rnd.choice(["ALL", "1", "D"]), accept=rnd.random() < 0.7, when="post", mutate=False))
        confs.append(dict(handlers=hs, saveFailAt=rnd.choice([0, 0, 1, 2, 3, 5])))
    # handlers registered in the middle of the traffic, after messages of their type (and of other types) have passed
    nlate = 150 if quick else 3000
    late_from = len(confs)
    for _ in range(nlate):
        hs = []
        for i in range(rnd.randint(0, 3)):
            if rnd.random() < 0.6:
                hs.append(dict(id=i + 1, dir="out", ty=rnd.choice(["ALL", "V", "0"]), accept=rnd.random() < 0.8, when=rnd.choice(["pre", "post"]), mutate=False))
            else:
                hs.append(dict(id=i + 1, dir="in", ty=rnd.choice(["ALL", "1", "D", "d"]), accept=rnd.random() < 0.7, when="post", mutate=False))
        base = len(hs)
        for i in range(rnd.randint(1, 3)):
            if rnd.random() < 0.6:
                hs.append(dict(id=base + i + 1, dir="out", ty=rnd.choice(["V", "0", "V", "ALL", "v"]), accept=rnd.random() < 0.5, when="late", mutate=False))
            else:
                hs.append(dict(id=base + i + 1, dir="in", ty=rnd.choice(["1", "D", "0", "ALL", "d", "v"]), accept=rnd.random() < 0.7, when="late", mutate=False))
        confs.append(dict(handlers=hs, saveFailAt=rnd.choice([0, 0, 0, 4]), late=True))
    # the second lifetime of a session object: the peer logs out and on again, then the traffic goes on (handlers that refuse
    # nothing outbound, or no application handlers at all: what is judged is that the session's own handlers are all still there)
    relog = []
    for i in range(4 if quick else 40):
        hs = []
        for j in range(rnd.choice([0, 0, 1, 3])):
            if rnd.random() < 0.5:
                hs.append(dict(id=j + 1, dir="out", ty=rnd.choice(["ALL", "V", "0", "5", "A"]), accept=True, when=rnd.choice(["pre", "post"]), mutate=False))
            else:
                hs.append(dict(id=j + 1, dir="in", ty=rnd.choice(["ALL", "1", "D", "5", "A"]), accept=rnd.random() < 0.7, when="post", mutate=False))
        relog.append(dict(handlers=hs, saveFailAt=0, relogon=True))
    confs += relog
    # several messages in one call, one of the saves failing (the first, a middle one, the last, none)
    for k in (0, 1, 2, 3, 5):
        confs.append(dict(handlers=[], saveFailAt=k, batch=True))
    # sends through a session that the application has closed (Session.Stop: Logout, session context cancelled) while its handler
    # and connection stay up: a refusal or a failing save is still reported by the send call
    for k in (0, 2, 3, 4, 5):
        for hs in ([], [dict(id=1, dir="out", ty="V", accept=False, when="post", mutate=False)],
                   [dict(id=1, dir="out", ty="ALL", accept=True, when="pre", mutate=False), dict(id=2, dir="out", ty="5", accept=True, when="post", mutate=False)]):
            confs.append(dict(handlers=hs, saveFailAt=k, stop=True))
    scns = []
    for i, c in enumerate(confs):
        steps = [dict(a="send", ty="V"), dict(a="recv", ty="1"), dict(a="send", ty="V"), dict(a="recv", ty="D"),
                 dict(a="recv", ty="1"), dict(a="send", ty="V")]
        if i % 5 == 3:
            steps = [dict(a="send", ty="V"), dict(a="send", ty="V"), dict(a="recv", ty="1"), dict(a="recv", ty="2"), dict(a="send", ty="V"),
                     dict(a="recv", ty="2"), dict(a="send", ty="V")]
        if i % 3 == 1:
            steps = [dict(a="recv", ty="1"), dict(a="recv", ty="0"), dict(a="send", ty="V"), dict(a="send", ty="V"), dict(a="send", ty="V")]
        if i % 4 == 2:
            # one message object sent three times while the writer is held back (the queue drains afterwards)
            steps = [dict(a="send", ty="V"), dict(a="burst", ty="V"), dict(a="recv", ty="1"), dict(a="burst", ty="V")]
        late_at = 0
        if c.get("late"):
            steps = [dict(a="send", ty="V"), dict(a="recv", ty="1"), dict(a="recv", ty="D"), dict(a="recv", ty="0"),
                     dict(a="send", ty="V"), dict(a="recv", ty="1"), dict(a="recv", ty="D"), dict(a="recv", ty="0"), dict(a="send", ty="V"),
                     dict(a="recv", ty="d"), dict(a="recv", ty="v"), dict(a="recv", ty="D")]
            late_at = 4
        if c.get("batch"):
            steps = [dict(a="batch", ty="V"), dict(a="send", ty="V"), dict(a="batch", ty="V"), dict(a="recv", ty="1")]
        if c.get("stop"):
            steps = [dict(a="send", ty="V"), dict(a="stop", ty="5"), dict(a="send", ty="V"), dict(a="send", ty="V"), dict(a="send", ty="V")]
        if c.get("relogon"):
            steps = [dict(a="send", ty="V"), dict(a="recv", ty="1"), dict(a="recv", ty="5"), dict(a="recv", ty="A"), dict(a="send", ty="V"),
                     dict(a="recv", ty="1"), dict(a="recv", ty="D"), dict(a="send", ty="V"), dict(a="recv", ty="2"), dict(a="recv", ty="5"), dict(a="recv", ty="A"),
                     dict(a="send", ty="V"), dict(a="recv", ty="1")]
        scns.append(dict(id="d%d" % i, role="acceptor" if i % 2 == 0 else "initiator", handlers=c["handlers"],
                         saveFailAt=c["saveFailAt"], steps=steps, lateAt=late_at))
    traces = sc.run_driver(run, binp, scns, "dispatch", testname="TestDispatch")
    run.traces = len(scns)
    rejects = sc.validate(run, traces, module="DispatchTrace", mods=["Dispatch.tla", "DispatchTrace.tla"])
    viol, kn = classify(prop, [r for r in rejects if r[0] == prop])
    run.add_known(kn)
    seen = set()
    for r in viol:
        if r[2] in seen or len(run.violations) >= 10:
            continue
        seen.add(r[2])
        sid = r[1].split("#")[0]
        run.violation(r, {"property": prop, "kind": "dispatch", "reject": r, "scenario": sc.find_scenario(scns, sid)})
    if len(viol) > len(run.violations):
        run.notes.append("%d rejected steps in total" % len(viol))
    run.samples = [{"scenario": s["id"], "handlers": s["handlers"], "saveFailAt": s["saveFailAt"], "steps": [x["a"] + ":" + x["ty"] for x in s["steps"]]} for s in scns[:3]]
    run.assumptions = ["handlers and the failing MessageStorage are application-side objects registered through the public API",
                       "incoming application handlers are registered after logon (the session's own handlers run first)",
                       "for inbound lists only the order of the calls that happened is bound, not how far a list continues after a refusal of an internal handler"]
    return run.finish("configuration = ordered list of registered handlers (direction, ALL/type, accept/refuse, before Run / after logon) x save failure "
                      "position, enumerated exhaustively by TLC up to MaxHandlers=%d (then seeded larger ones); each is driven through sends and inbound "
                      "messages on the real handler/session; non-trivial when at least one handler or a save failure is present" % maxh,
                      exhaustive=exhaustive)


def replay(obj):
    s = obj.get("scenario")
    run = Run("C19", "replay", 0)
    binp = go_test_build("./sess/", "sess.test")
    traces = sc.run_driver(run, binp, [s], "replay", testname="TestDispatch")
    rej = sc.validate(run, traces, module="DispatchTrace", mods=["Dispatch.tla", "DispatchTrace.tla"])
    for r in rej:
        print("  REJECT", json.dumps(r)[:700])
    return 1 if rej else 0
