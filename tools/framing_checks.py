"""C04: Framing.tla / MCFraming.tla / FramingTrace.tla bound to the real Conn / Acceptor / Initiator by
harness/wirerig (scripted net.Conn whose Read returns exactly the chunks of a partition; recording handlers)."""
import json, random
from vlib import *
import session_checks as sc

PROPS = ["C04"]


def frame(fields):
    body = b"".join(t.encode() + b"=" + v + b"\x01" for t, v in fields)
    pre = b"8=FIX.4.4\x019=" + str(len(body)).encode() + b"\x01" + body
    return pre + b"10=%03d\x01" % (sum(pre) % 256)


def gen_msg(rnd):
    ty = rnd.choice([b"0", b"A", b"D", b"8", b"V", b"AE"])
    fields = [("35", ty), ("49", b"PEER"), ("56", b"SRV"), ("34", str(rnd.randint(1, 99999)).encode())]
    for _ in range(rnd.randint(0, 5)):
        tag = rnd.choice(["58", "110", "210", "1010", "11", "55", "100", "310"])
        val = rnd.choice([b"10=", b"x10=123", b"10", b"=", b"1", b"0=", b"a" * rnd.randint(1, 40), b"10=000", b"|10=", b"8=FIX"])
        fields.append((tag, val))
    return frame(fields)


def partitions(rnd, total, sent_lens, n_random, every_cut):
    out = [[total], [1] * total]
    if every_cut:
        out += [[c, total - c] for c in range(1, total)]
    else:
        out += [[c, total - c] for c in rnd.sample(range(1, total), min(total - 1, 12))]
    # cuts right around every message boundary and inside the CheckSum tag
    off = 0
    for ln in sent_lens:
        end = off + ln
        for c in (end - 8, end - 7, end - 6, end - 5, end - 1, end, end + 1):
            if 0 < c < total:
                out.append([c, total - c])
        off = end
    for _ in range(n_random):
        k = rnd.randint(2, min(12, total))
        cuts = sorted(rnd.sample(range(1, total), k - 1)) if total > k else []
        prev, p = 0, []
        for c in cuts + [total]:
            p.append(c - prev)
            prev = c
        out.append(p)
    return out


def boundary_rejects(run, seed, quick):
    """C18 (end-of-message detection): the framing scenarios whose values contain the CheckSum tag text and whose tags
    end in its digits, incl. fields longer than a read buffer; returns the FramingTrace rejections about delivered messages."""
    rnd = random.Random(seed + 18)
    binp = go_test_build("./wirerig/", "wirerig.test")
    scns = scenarios(rnd, quick, only_inbound=True)
    traces = sc.run_driver(run, binp, scns, "boundaries", testname="TestFraming")
    run.traces += len(scns)
    rejects = sc.validate(run, traces, module="FramingTrace", mods=["Framing.tla", "FramingTrace.tla"])
    return [r for r in rejects if "handler was not given exactly the messages" in r[2]], scns


def check(prop, tier, seed):
    run = Run(prop, tier, seed)
    quick = tier == "quick"
    rnd = random.Random(seed)
    binp = go_test_build("./wirerig/", "wirerig.test")
    for conns, cap in (("{1}", 0), ("{1}", 1), ("{1,2}", 0)) if quick else (("{1}", 0), ("{1}", 1), ("{1,2}", 0), ("{1,2}", 1)):
        cfg = ("SPECIFICATION Spec\nCONSTANTS\n Conns = %s\n Cap = %d\nINVARIANTS DeliveredPrefix Conservation AllDelivered FunctionalForm\nCHECK_DEADLOCK FALSE\n" % (conns, cap))
        res = tlc("MCFraming", cfg, run.sub("mc-%s-%d" % (conns.strip("{}").replace(",", ""), cap)), ["Framing.tla", "MCFraming.tla"], workers=NCPU, timeout=2400, heap="12g")
        run.add_mc(res, "MCFraming conns=%s cap=%d: all partitions of the streams into read chunks" % (conns, cap))
    scns = scenarios(rnd, quick)
    traces = sc.run_driver(run, binp, scns, "framing", testname="TestFraming")
    run.traces = len(scns)
    return finish_check(run, prop, scns, traces)


def scenarios(rnd, quick, only_inbound=False):
    scns = []
    k = 0
    for si in range(6 if quick else 60):
        msgs = [gen_msg(rnd) for _ in range(rnd.randint(1, 4))]
        total = sum(len(m) for m in msgs)
        parts = partitions(rnd, total, [len(m) for m in msgs], 6 if quick else 40, every_cut=(si < (1 if quick else 12)))
        for p in parts:
            role = rnd.choice(["acceptor", "initiator"])
            scns.append(dict(id="f%d" % k, role=role, buf=rnd.choice([0, 1, 10]), senders=rnd.choice([1, 2, 4]),
                             conns=[dict(sent=[list(m) for m in msgs], chunks=p, out=rnd.choice([0, 3, 8]))]))
            k += 1
    # read timings: a stall between two chunks (longer than any plausible polling interval of a reader) placed
    # inside the CheckSum segment, right before a value's "10=" text, and at other cuts
    for si in range(10 if quick else 120):
        msgs = [frame([("35", b"D"), ("49", b"PEER"), ("56", b"SRV"), ("34", b"7"), ("58", b"see tag \x0210=checksum and 10=000 again")])] + \
               [gen_msg(rnd) for _ in range(rnd.randint(1, 2))]
        stream = b"".join(msgs)
        total = len(stream)
        first = len(msgs[0])
        cands = [first - 6, first - 5, first - 4, first - 2, stream.find(b"10=checksum"), stream.find(b"10=000 again"),
                 stream.find(b"10=checksum") + 1, first, rnd.randint(1, total - 1)]
        cut = sorted({c for c in rnd.sample(cands, 3) if 0 < c < total})
        prev, chunks = 0, []
        for c in cut + [total]:
            chunks.append(c - prev)
            prev = c
        gaps = [0] + [rnd.choice([150, 250]) for _ in chunks[1:]]
        scns.append(dict(id="t%d" % si, role=rnd.choice(["acceptor", "initiator"]), buf=rnd.choice([0, 1, 10]), senders=1,
                         conns=[dict(sent=[list(m) for m in msgs], chunks=chunks, gapsMs=gaps, out=0)]))
    # fields longer than the usual 4096-byte read buffer, with the text "10=" around the buffer boundary inside the value
    for si in range(16 if quick else 200):
        off = rnd.choice([4088, 4090, 4091, 4092, 4093, 4094, 4095, 4096, 4097, 8189, 8190, 8192, 4093 - 3, 12285]) + rnd.choice([0, 0, 0, 1, -1])
        val = b"y" * max(1, off) + b"10=123" + b"z" * rnd.randint(0, 40)
        msgs = [frame([("35", b"D"), ("49", b"PEER"), ("56", b"SRV"), ("34", b"3"), ("58", val)]), gen_msg(rnd)]
        total = sum(len(m) for m in msgs)
        chunks = rnd.choice([[total], [4096] * (total // 4096) + ([total % 4096] if total % 4096 else []), [100, total - 100]])
        scns.append(dict(id="L%d" % si, role=rnd.choice(["acceptor", "initiator"]), buf=rnd.choice([0, 10]), senders=1,
                         conns=[dict(sent=[list(m) for m in msgs], chunks=chunks, out=0)]))
    # bursts: many messages in one read with an application handler slower than the wire (every hand-off queue fills)
    for si in range(5 if quick else 60):
        msgs = [gen_msg(rnd) for _ in range(rnd.choice([30, 60, 100]))]
        total = sum(len(m) for m in msgs)
        scns.append(dict(id="B%d" % si, role=rnd.choice(["acceptor", "initiator"]), buf=rnd.choice([0, 1, 4, 10]), senders=1,
                         conns=[dict(sent=[list(m) for m in msgs], chunks=rnd.choice([[total], [total // 2, total - total // 2]]), out=0)]))
    # several simultaneous connections on one acceptor
    for si in range(20 if quick else 300):
        cs = []
        for c in range(rnd.randint(2, 3)):
            msgs = [gen_msg(rnd) for _ in range(rnd.randint(1, 3))]
            total = sum(len(m) for m in msgs)
            p = rnd.choice(partitions(rnd, total, [len(m) for m in msgs], 3, False))
            cs.append(dict(sent=[list(m) for m in msgs], chunks=p, out=rnd.choice([0, 4])))
        scns.append(dict(id="m%d" % si, role="acceptor", buf=rnd.choice([0, 1, 10]), senders=rnd.choice([1, 3]), conns=cs))
    # several connections waiting in the backlog when the acceptor starts accepting (every handler is created for its own connection)
    for si in range(16 if quick else 200):
        cs = []
        for c in range(rnd.randint(2, 5)):
            msgs = [frame([("35", b"D"), ("49", b"PEER%d" % c), ("56", b"SRV"), ("34", b"%d" % (c + 1)), ("58", b"conn %d-%d 10=x" % (si, c))])] + \
                   [gen_msg(rnd) for _ in range(rnd.randint(0, 3))]
            total = sum(len(m) for m in msgs)
            cs.append(dict(sent=[list(m) for m in msgs], chunks=rnd.choice(partitions(rnd, total, [len(m) for m in msgs], 3, False)), out=0))
        scns.append(dict(id="S%d" % si, role="acceptor", buf=rnd.choice([0, 1, 10]), senders=1, conns=cs, simultaneous=True))
    # a connection that dies in the middle of a message (EOF or reset after at least one complete field of it), then further
    # connections on the same acceptor: each handler still gets exactly what ITS peer sent
    for si in range(24 if quick else 300):
        cs = []
        nconn = rnd.randint(2, 4)
        for c in range(nconn):
            msgs = [gen_msg(rnd) for _ in range(rnd.randint(0 if c < nconn - 1 else 1, 3))]
            total = sum(len(m) for m in msgs)
            d = dict(sent=[list(m) for m in msgs], out=0)
            if c < nconn - 1 and rnd.random() < 0.8:
                nxt = gen_msg(rnd)
                cutpos = rnd.choice([rnd.randint(12, max(13, len(nxt) - 8)), len(nxt) - 7, len(nxt) - 4, len(nxt) - 1, nxt.find(b"\x0135=") + 6])
                d["tail"] = list(nxt[:max(1, cutpos)])
                d["dies"] = rnd.choice(["eof", "reset"])
                total += len(d["tail"])
            d["chunks"] = rnd.choice(partitions(rnd, total, [len(m) for m in msgs], 3, False)) if total > 1 else [max(total, 1)]
            cs.append(d)
        scns.append(dict(id="D%d" % si, role="acceptor", buf=rnd.choice([0, 1, 10]), senders=1, conns=cs))
    # a write that is accepted only in part and times out (the peer stopped reading for longer than the write deadline), after
    # which the peer reads again: whatever the connection does next, the outbound stream stays a prefix of the hand-off
    for si in range(16 if quick else 200):
        msgs = [gen_msg(rnd) for _ in range(rnd.randint(0, 2))]
        total = sum(len(m) for m in msgs)
        nout = rnd.choice([3, 5, 8])
        faults = sorted(rnd.sample(range(1, 90 * nout), rnd.choice([1, 1, 2])))
        scns.append(dict(id="W%d" % si, role=rnd.choice(["acceptor", "initiator"]), buf=rnd.choice([0, 1, 10]), senders=1,
                         conns=[dict(sent=[list(m) for m in msgs], chunks=[total] if total else [1], out=nout, writeFaults=faults)]))
    # the application stops the handler while a message is inside its (slow) callback and more are queued behind it - from another
    # goroutine or from the callback itself: what is delivered is still the peer's first messages, in order, one at a time
    for si in range(12 if quick else 160):
        msgs = [gen_msg(rnd) for _ in range(rnd.randint(4, 8))]
        total = sum(len(m) for m in msgs)
        scns.append(dict(id="P%d" % si, role=rnd.choice(["acceptor", "initiator"]), buf=rnd.choice([1, 4, 10, 10]), senders=1,
                         conns=[dict(sent=[list(m) for m in msgs], chunks=[total], out=0, stopAt=rnd.randint(1, 3), stopInside=si % 2 == 0)]))
    if only_inbound:
        for s_ in scns:
            for c in s_["conns"]:
                c["out"] = 0
    return scns


def finish_check(run, prop, scns, traces):
    rejects = sc.validate(run, traces, module="FramingTrace", mods=["Framing.tla", "FramingTrace.tla"])
    # the whole library end to end over TCP: what each handler was given against what the proxy passed on
    import stack_checks
    rejects += stack_checks.check(run, run.tier == "quick", run.seed)
    viol, kn = classify(prop, [r for r in rejects if r[0] == prop])
    run.add_known(kn)
    seen = set()
    for r in viol:
        if r[2] in seen or len(run.violations) >= 10:
            continue
        seen.add(r[2])
        run.violation(r, stack_checks.replay_obj(prop, r) or
                      {"property": prop, "kind": "framing", "reject": r, "scenario": sc.find_scenario(scns, r[1].split("/")[0])})
    if len(viol) > len(run.violations):
        run.notes.append("%d rejected connection records in total" % len(viol))
    run.samples = [{"scenario": s["id"], "role": s["role"], "buf": s["buf"], "chunks": s["conns"][0]["chunks"][:12],
                    "first_message": bytes(s["conns"][0]["sent"][0]).decode("latin1").replace("\x01", "|")} for s in scns[:3]]
    run.assumptions = ["the transport is a scripted in-memory net.Conn: Read returns exactly the chunks of the partition, then blocks until closed",
                       "real-time executor with bounded waits (2 s) for delivery; a timeout shows up as missing deliveries",
                       "outbound messages are handed to DefaultHandler.Send by 1..4 goroutines; hand-off order is observed by an outgoing handler under the handler lock",
                       stack_checks.ASSUMPTION]
    return run.finish("scenario = 1..3 connections x messages (values containing '10=', tags 110/210/1010) x a partition of the byte stream into read "
                      "chunks (whole, one byte per read, every single cut position for the first streams, cuts around message ends and inside the "
                      "CheckSum tag, random multi-cuts) x buffer size 0/1/10 x role; one record per connection validated by FramingTrace")


def replay(obj):
    s = obj.get("scenario")
    run = Run("C04", "replay", 0)
    binp = go_test_build("./wirerig/", "wirerig.test")
    traces = sc.run_driver(run, binp, [s], "replay", testname="TestFraming")
    rej = sc.validate(run, traces, module="FramingTrace", mods=["Framing.tla", "FramingTrace.tla"])
    for r in rej:
        print("  REJECT", json.dumps(r)[:700])
    return 1 if rej else 0
