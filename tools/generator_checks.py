"""C12: Generator.tla / MCGenerator.tla / GeneratorTrace.tla bound to the real generator (cmd/fixgen) by
harness/cmd/gendrv.  Level: translation validation per generated program."""
import copy, json, os, random, shutil, subprocess, tempfile, concurrent.futures
import xml.etree.ElementTree as ET
from vlib import *
import session_checks as sc

PROPS = ["C12"]
FRAMING = {"BeginString", "BodyLength", "MsgType", "CheckSum"}
PIPELINE = {"SenderCompID", "TargetCompID", "MsgSeqNum", "SendingTime", "HeartBtInt", "EncryptMethod", "Password", "Username",
            "ResetSeqNumFlag", "TestReqID", "BeginSeqNo", "EndSeqNo", "NewSeqNo", "GapFillFlag", "SessionRejectReason", "RefSeqNum", "RefTagID"}


def owners_of(root):
    """header, trailer, messages, components in document order (the order Generator / gendrv use is by name; scripts address by index here)."""
    out = [root.find("header"), root.find("trailer")]
    out += list(root.find("messages"))
    comps = root.find("components")
    if comps is not None:
        out += list(comps)
    return [o for o in out if o is not None]


def editable(m):
    return m.get("name") not in FRAMING and m.get("name") not in PIPELINE


def apply_script(root, script, rnd):
    """Apply an MCGenerator edit script to a real schema: owner / member indices are taken modulo the real sizes."""
    for e in script:
        op = e["op"]
        if op == "dupfield":
            fs = list(root.find("fields"))
            a, b = rnd.sample(fs, 2)
            b.set("number", a.get("number"))
            continue
        if op == "dupmsg":
            ms = list(root.find("messages"))
            if len(ms) >= 2:
                a, b = rnd.sample(ms, 2)
                b.set("msgtype", a.get("msgtype"))
            continue
        own = owners_of(root)
        o = own[(e["owner"] * 7 + rnd.randint(0, len(own) - 1)) % len(own)]
        ms = [m for m in list(o) if editable(m)]
        if not ms:
            continue
        m = ms[(e["member"] + rnd.randint(0, len(ms) - 1)) % len(ms)]
        if op == "remove":
            if len(list(o)) > 1:
                o.remove(m)
        elif op == "required":
            m.set("required", "N" if m.get("required") == "Y" else "Y")
        elif op == "swap":
            kids = list(o)
            i = kids.index(m)
            if i + 1 < len(kids) and editable(kids[i + 1]):
                o.remove(m)
                o.insert(i + 1, m)
    return root


def extra_edits(root, rnd, kind):
    """Edits outside MCGenerator's alphabet: rename, add, type-map change."""
    if kind == "rename":
        fs = [f for f in root.find("fields") if f.get("name") not in FRAMING | PIPELINE and not f.findall("value")]
        f = rnd.choice(fs)
        old, new = f.get("name"), f.get("name") + "X"
        f.set("name", new)
        for el in root.iter():   # every reference: members of messages / components / groups, and group count fields
            if el.tag in ("field", "group") and el.get("name") == old and el is not f:
                el.set("name", new)
    elif kind == "hdrrequired":
        # the 'required' attribute of a header member is toggled: it decides the arguments of NewHeader and nothing else (the four
        # fields the session stamps keep their SetField* methods, no other member gets one)
        hdr = root.find("header")
        ms = [m for m in list(hdr) if m.tag == "field" and m.get("name") not in FRAMING]
        pipe = [m for m in ms if m.get("name") in PIPELINE]
        other = [m for m in ms if m.get("name") not in PIPELINE]
        m = rnd.choice(pipe if (rnd.random() < 0.5 and pipe) or not other else other)
        m.set("required", "N" if m.get("required") == "Y" else "Y")
    elif kind == "moveframing":
        # a framing field of the header / trailer that is not in its customary place (it stays excluded from the members)
        o = root.find(rnd.choice(["header", "header", "trailer"]))
        fr = [m for m in list(o) if m.get("name") in FRAMING]
        if fr:
            m = rnd.choice(fr)
            o.remove(m)
            o.insert(rnd.randint(0, len(list(o))), m)
    elif kind == "addfield":
        fields = root.find("fields")
        nums = {f.get("number") for f in fields}
        n = next(str(k) for k in range(5000, 9000) if str(k) not in nums)
        ET.SubElement(fields, "field", number=n, name="VerifAdded", type=rnd.choice(["STRING", "INT", "PRICE", "BOOLEAN", "UTCTIMESTAMP"]))
        o = rnd.choice(owners_of(root)[2:])
        ET.SubElement(o, "field", name="VerifAdded", required=rnd.choice(["Y", "N"]))
    elif kind == "deepgroup":
        # groups nested three and four levels deep, with names of their own (the shipped schemas stop at two / reuse names)
        fields = root.find("fields")
        nums = {f.get("number") for f in fields}
        free = (str(k) for k in range(5000, 9000) if str(k) not in nums)
        depth = rnd.choice([3, 3, 4])
        for lvl in range(depth):
            ET.SubElement(fields, "field", number=next(free), name="NoVerifL%d" % lvl, type="NUMINGROUP")
            ET.SubElement(fields, "field", number=next(free), name="VerifL%dVal" % lvl, type=rnd.choice(["STRING", "INT", "PRICE"]))
        if rnd.random() < 0.5:
            msgs = root.find("messages")
            parent = ET.SubElement(msgs, "message", name="VerifDeep", msgtype="ZD", msgcat="app")
            ET.SubElement(parent, "field", name=rnd.choice([f.get("name") for f in fields if f.get("name") not in FRAMING][:40]), required="N")
        else:
            parent = rnd.choice([m for m in root.find("messages") if m.get("name") not in ("Logon", "Logout", "Heartbeat", "TestRequest", "ResendRequest", "Reject")])
        for lvl in range(depth):
            g = ET.SubElement(parent, "group", name="NoVerifL%d" % lvl, required="N")
            ET.SubElement(g, "field", name="VerifL%dVal" % lvl, required=rnd.choice(["Y", "N"]))
            parent = g
    elif kind == "samegroup":
        # two components that each declare a group of the same name with different members (the later definition wins, every time)
        fields = root.find("fields")
        nums = {f.get("number") for f in fields}
        free = (str(k) for k in range(5000, 9000) if str(k) not in nums)
        ET.SubElement(fields, "field", number=next(free), name="NoVerifItems", type="NUMINGROUP")
        for nm in ("VerifItemA", "VerifItemB", "VerifItemC"):
            ET.SubElement(fields, "field", number=next(free), name=nm, type="STRING")
        comps = root.find("components")
        for cname, members in (("VerifOne", ["VerifItemA", "VerifItemB"]), ("VerifTwo", ["VerifItemC", "VerifItemA"]), ("VerifThree", ["VerifItemB"])):
            c = ET.SubElement(comps, "component", name=cname)
            g = ET.SubElement(c, "group", name="NoVerifItems", required="N")
            for m in members:
                ET.SubElement(g, "field", name=m, required="N")
        msgs = root.find("messages")
        m = ET.SubElement(msgs, "message", name="VerifSame", msgtype="ZS", msgcat="app")
        for cname in ("VerifOne", "VerifTwo", "VerifThree"):
            ET.SubElement(m, "component", name=cname, required="N")
    elif kind == "addmessage":
        msgs = root.find("messages")
        ET.SubElement(msgs, "message", name="VerifMsg", msgtype="ZV", msgcat="app")
        m = msgs[-1]
        fs = [f.get("name") for f in root.find("fields") if f.get("name") not in FRAMING]
        for n in rnd.sample(fs, 3):
            ET.SubElement(m, "field", name=n, required=rnd.choice(["Y", "N"]))
    return root


def types_variant(path, out, rnd, schema_path, idx=None):
    root = ET.parse(path).getroot()
    # types of the fields the session pipeline interfaces fix (their Go types are part of session/messages)
    sroot = ET.parse(schema_path).getroot()
    pinned = {f.get("type") for f in sroot.find("fields") if f.get("name") in PIPELINE | FRAMING}
    ts = [t for t in root.find("types") if t.get("name") not in pinned]
    # every cast the generator knows comes round (by variant index), on a type that fields of the schema really use
    used = {f.get("type") for f in sroot.find("fields")}
    ts_used = [t for t in ts if t.get("name") in used] or ts
    casts = ["Raw", "Int", "Float", "String", "Bool", "Time"]
    if idx is None:
        rnd.choice(ts_used).set("cast", rnd.choice(casts))
    else:
        # two casts differ from the shipped mapping at once: one on a type that has fields with enumerated values (what such a
        # field is in the generated package depends on its cast - a Bool cast makes it a plain bool field), one on a type without
        enum_types = {f.get("type") for f in sroot.find("fields") if f.findall("value") and f.get("type") != "BOOLEAN"}
        te = [t for t in ts_used if t.get("name") in enum_types]
        tp = [t for t in ts_used if t.get("name") not in enum_types]
        if te:
            rnd.choice(te).set("cast", casts[(idx + 4) % len(casts)])
        if tp:
            rnd.choice(tp).set("cast", casts[idx % len(casts)])
    ET.ElementTree(root).write(out)


def remove_duplicate_msgtype(root):
    seen = set()
    msgs = root.find("messages")
    for m in list(msgs):
        if m.get("msgtype") in seen:
            msgs.remove(m)
        seen.add(m.get("msgtype"))
    return root


def run_one(args):
    gendrv, fixgen, xmlp, typesp, sid, accept, ref, behaviour = args
    work = tempfile.mkdtemp(prefix="verif-gen-")   # scratch outside /repo and /verif, removed right after
    try:
        cmd = [gendrv, "-xml", xmlp, "-types", typesp, "-id", sid, "-fixgen", fixgen, "-work", work, "-repo", REPO,
               "-accept=%s" % ("true" if accept else "false"), "-behaviour=%s" % ("true" if behaviour else "false"), "-go", "go"]
        if ref:
            cmd += ["-ref", ref]
        p = subprocess.run(cmd, capture_output=True, text=True, timeout=900, env=goenv())
        if p.returncode != 0:
            return (sid, None, "gendrv failed: " + (p.stderr or p.stdout)[-1500:])
        return (sid, p.stdout.strip().splitlines()[-1], None)
    except subprocess.TimeoutExpired:
        return (sid, None, "gendrv timeout")
    finally:
        shutil.rmtree(work, ignore_errors=True)


def check(prop, tier, seed):
    run = Run(prop, tier, seed)
    run.level = "translation_validation"
    quick = tier == "quick"
    rnd = random.Random(seed)
    gendrv = go_build("./cmd/gendrv", "gendrv")
    os.makedirs(BIN, exist_ok=True)
    fixgen = os.path.join(BIN, "fixgen")
    sh(["go", "build", "-o", fixgen, "./cmd/fixgen"], cwd=REPO, env=goenv(), timeout=600)
    # (1) model: reachable schemas, consistency of the declarations, edit scripts
    res = tlc("MCGenerator", "SPECIFICATION Spec\nCONSTANT MaxEdits = %d\nINVARIANTS InvDecls InvAccept EmitScript\nCHECK_DEADLOCK FALSE\n" % (2 if quick else 3),
              run.sub("mc"), ["Generator.tla", "MCGenerator.tla"], workers=NCPU, timeout=1500, heap="8g")
    run.add_mc(res, "MCGenerator MaxEdits=%d (InvDecls InvAccept)" % (2 if quick else 3))
    scripts = split_lines(res, "EDITS")
    rnd.shuffle(scripts)
    # (2) schemas
    xdir = run.sub("schemas")
    small, small_t = os.path.join(REPO, "source", "fix44.xml"), os.path.join(REPO, "source", "types.xml")
    big, big_t = os.path.join(REPO, "generator", "testdata", "fix.4.4.xml"), os.path.join(REPO, "generator", "testdata", "types.xml")
    jobs = [(gendrv, fixgen, small, small_t, "shipped-source-fix44", True, os.path.join(REPO, "tests", "fix44"), True),
            (gendrv, fixgen, big, big_t, "shipped-testdata-fix.4.4-with-duplicate", False, None, False)]
    bigfixed = os.path.join(xdir, "big-nodup.xml")
    ET.ElementTree(remove_duplicate_msgtype(ET.parse(big).getroot())).write(bigfixed)
    jobs.append((gendrv, fixgen, bigfixed, big_t, "shipped-testdata-fix.4.4-duplicate-removed", True, None, True))
    nvar = 24 if quick else 300
    for i, sc_ in enumerate(scripts[:nvar]):
        base, types = (small, small_t) if (quick or i % 6) else (bigfixed, big_t)
        root = apply_script(ET.parse(base).getroot(), sc_["script"], rnd)
        p = os.path.join(xdir, "variant-%d.xml" % i)
        ET.ElementTree(root).write(p)
        jobs.append((gendrv, fixgen, p, types, "variant-%d:%s" % (i, "+".join(e["op"] for e in sc_["script"]) or "none"), sc_["accept"], None, True))
    for i in range(30 if quick else 140):
        kind = ["rename", "addfield", "addmessage", "typemap", "moveframing", "deepgroup", "samegroup", "typemap", "hdrrequired", "hdrrequired"][i % 10]
        p = os.path.join(xdir, "extra-%d.xml" % i)
        tp = small_t
        if kind == "typemap":
            shutil.copy(small, p)
            tp = os.path.join(xdir, "types-%d.xml" % i)
            types_variant(small_t, tp, rnd, small, idx=(i // 10) * 2 + (1 if i % 10 == 7 else 0))
        else:
            ET.ElementTree(extra_edits(ET.parse(small).getroot(), rnd, kind)).write(p)
        jobs.append((gendrv, fixgen, p, tp, "extra-%d:%s" % (i, kind), True, None, True))
    # duplicate field numbers in all four combinations of plain / enumerated fields
    for i, (ea, eb) in enumerate(((False, False), (False, True), (True, False), (True, True))):
        root = ET.parse(small).getroot()
        fs = list(root.find("fields"))
        enum = [f for f in fs if f.findall("value") and f.get("type") != "BOOLEAN"]
        plain = [f for f in fs if not f.findall("value") and f.get("name") not in FRAMING | PIPELINE]
        a = rnd.choice(enum if ea else plain)
        b = rnd.choice([f for f in (enum if eb else plain) if f is not a])
        b.set("number", a.get("number"))
        p = os.path.join(xdir, "dup-%d.xml" % i)
        ET.ElementTree(root).write(p)
        jobs.append((gendrv, fixgen, p, small_t, "dupfield-%s-onto-%s" % ("enum" if eb else "plain", "enum" if ea else "plain"), False, None, False))
    recs, skipped = [], 0
    with concurrent.futures.ThreadPoolExecutor(max_workers=NCPU) as ex:
        for sid, line, err in ex.map(run_one, jobs):
            if err:
                # a schema the real generator cannot even load (e.g. an edit left a dangling reference) is a driver-side matter
                if "panic" in err or "could not" in err:
                    skipped += 1
                    continue
                raise Inconclusive(err)
            recs.append(line)
    trace = os.path.join(run.dir, "gen.ndjson")
    with open(trace, "w") as f:
        for l in recs:
            f.write(l + "\n")
    run.traces = len(recs)
    rejects = sc.validate(run, [trace], module="GeneratorTrace", mods=["Generator.tla", "GeneratorTrace.tla"])
    viol, kn = classify(prop, [r for r in rejects if r[0] == prop])
    run.add_known(kn)
    seen = set()
    for r in viol:
        if r[2] in seen or len(run.violations) >= 10:
            continue
        seen.add(r[2])
        run.violation(r, {"property": prop, "kind": "generator", "reject": r, "schema_id": r[1]})
    if len(viol) > len(run.violations):
        run.notes.append("%d rejected checks in total" % len(viol))
    ok_recs = [json.loads(l) for l in recs]
    run.extra.update({"programs": len(recs), "disagreements_checked": sum(len(r.get("owners", [])) + len(r.get("consts", {})) for r in ok_recs),
                      "schemas_skipped_generator_panicked_on_load": skipped,
                      "behavioural_setter_getter_checks": sum(r.get("behaviourChecks", 0) for r in ok_recs)})
    run.samples = [{"schema": r["id"], "accepted": r["accepted"], "types": len(r.get("owners", [])), "constants": len(r.get("consts", {})),
                    "dirs": [r.get("dirRelative"), r.get("dirNested"), r.get("dirAbsolute")]} for r in ok_recs[:5]]
    run.assumptions = ["name mangling (XGrp / XEntry / FieldX) and the type mapping of types.xml are applied by the harness when it reads the schema; order, indices, required-ness, constants and acceptance are decided by Generator.tla",
                       "declarations are extracted from the generated files with go/parser; behaviour is checked by a driver generated from the XML alone (top-level fields of messages)",
                       "scratch directories are created with mkdtemp outside /repo and /verif and removed after each schema"]
    return run.finish("program = the package generated from one schema: the two shipped schemas (the test-data one with and without its deliberate duplicate), "
                      "schemas obtained by applying every MCGenerator edit script (remove / swap / toggle required / duplicate number / duplicate message "
                      "type, up to MaxEdits) to them, and seeded rename / add-field / add-message / type-map edits; each program is generated twice and "
                      "into relative, nested and absolute directories, compiled, exercised, and its declarations compared with Generator.tla")


def replay(obj):
    print(json.dumps(obj.get("reject"))[:3000])
    return 1
