"""C13: Lifecycle.tla / LifecycleTrace.tla bound to the real Acceptor / Initiator / Conn / handler / session by
harness/wirerig/lifecycle.go (scripted connection with fault injection, real-time executor)."""
import itertools, json, random
from vlib import *
import session_checks as sc

PROPS = ["C13"]

CAUSES = ["peer_close", "peer_reset", "read_timeout", "write_error", "peer_stops_reading", "local_close", "handler_stop", "timer_disconnect"]
PHASES = ["prelogon", "handshake", "logged", "logout", "relogged"]


def grid(rnd, quick):
    out = []
    k = 0
    for role in ("acceptor", "initiator"):
        for cause in CAUSES:
            for phase in PHASES:
                if cause == "timer_disconnect" and phase not in ("logged", "relogged"):
                    continue
                if cause in ("write_error", "peer_stops_reading") and phase in ("prelogon", "handshake") and role == "acceptor":
                    pass
                combos = [(0, 0, False, False), (3, 0, True, False), (2, 2, True, False), (0, 3, False, False), (1, 0, False, True), (3, 1, False, False)]
                if quick:
                    combos = [combos[1]] + rnd.sample([combos[0]] + combos[2:], 1)   # always: inbound in flight behind a slow callback
                for (inin, inout, slow, partial) in combos:
                    if cause == "timer_disconnect" and (inin or inout or partial):
                        continue
                    for buf in ((rnd.choice([0, 1, 10]),) if quick else (0, 1, 10)):
                        out.append(dict(id="lc-%d" % k, role=role, cause=cause, phase=phase, inIn=inin, inOut=inout, buf=buf,
                                        slowCb=slow, partial=partial, cause2="", gapMs=0, errDelayMs=0))
                        k += 1
    # two overlapping causes: a local stop / close and the peer going away shortly before or after (accepting side)
    for c1, c2 in (("handler_stop", "peer_close"), ("handler_stop", "peer_reset"), ("peer_close", "handler_stop"), ("local_close", "peer_close"),
                   ("peer_reset", "local_close"), ("timer_disconnect", "peer_close")):
        for phase in (("logged",) if quick else ("prelogon", "logged", "logout")):
            for gap in ((0, 5, 40) if not quick else (rnd.choice([0, 5]), 40)):
                if c1 == "timer_disconnect":
                    gap = 4300 + gap
                    if phase != "logged":
                        continue
                out.append(dict(id="lc-%d" % k, role="acceptor", cause=c1, phase=phase, inIn=rnd.choice([0, 2]), inOut=rnd.choice([0, 1]),
                                buf=rnd.choice([0, 1, 10]), slowCb=rnd.random() < 0.5, partial=False, cause2=c2, gapMs=gap, errDelayMs=0))
                k += 1
                if c1 in ("peer_close", "peer_reset"):
                    # the peer went away, but the failing Read surfaces only after the local side has stopped / closed
                    out.append(dict(id="lc-%d" % k, role="acceptor", cause=c1, phase=phase, inIn=0, inOut=rnd.choice([0, 1]),
                                    buf=rnd.choice([0, 1, 10]), slowCb=False, partial=False, cause2=c2, gapMs=5, errDelayMs=rnd.choice([30, 60])))
                    k += 1
    # the application's incoming callback blocks until the handler's context ends (hand-off to a bounded queue): the end of the
    # connection must still reach the handler (accepting side; before logon, nothing is being written)
    for cause in ("peer_close", "peer_reset", "read_timeout", "local_close", "handler_stop"):
        for phase in (("prelogon",) if quick else ("prelogon", "handshake")):
            # (one message inside the callback and nothing queued behind it; and two messages against a queue of none: the second
            #  one is still being handed to the handler when the connection ends)
            for inin, buf in (((1, rnd.choice([1, 10])), (2, 0)) if quick else ((1, 1), (1, 10), (2, 0))):
                out.append(dict(id="lc-%d" % k, role="acceptor", cause=cause, phase=phase, inIn=inin, inOut=0, buf=buf, slowCb=False, partial=False,
                                cause2="", gapMs=0, errDelayMs=0, blockCb=True))
                k += 1
    # the application's error callback stops the session at the first error it is told about (which may be the failed send of
    # a message the session sends itself once the connection has gone): everything still winds down, later calls return
    for cause in ("peer_close", "peer_reset", "write_error"):
        for buf in ((0, 10) if quick else (0, 1, 10)):
            out.append(dict(id="lc-%d" % k, role="acceptor", cause=cause, phase="logged", inIn=1, inOut=1, buf=buf, slowCb=False, partial=False,
                            cause2="", gapMs=0, errDelayMs=0, blockCb=False, errStop=True))
            k += 1
    # the application turns the client away inside the new-client callback (before the handler runs), the peer gone already or not
    for cause in ("handler_stop", "local_close"):
        for c2 in ("peer_close", "peer_reset", ""):
            for gap in ((10,) if quick else (0, 10, 40)):
                out.append(dict(id="lc-%d" % k, role="acceptor", cause=cause, phase="callback", inIn=0, inOut=0, buf=rnd.choice([0, 10]), slowCb=False,
                                partial=False, cause2=c2, gapMs=gap, errDelayMs=0))
                k += 1
    # the earliest point of a connection's life: the acceptor is closed while a connection is being accepted
    for gap in ((0, 2, -1) if quick else (0, 1, 2, 5, 20, -1, -3)):
        for buf in ((10,) if quick else (0, 10)):
            out.append(dict(id="lc-%d" % k, role="acceptor", cause="local_close", phase="accept", inIn=0, inOut=0, buf=buf, slowCb=False, partial=False,
                            cause2="", gapMs=gap, errDelayMs=0))
            k += 1
    return out


def check(prop, tier, seed):
    run = Run(prop, tier, seed)
    quick = tier == "quick"
    rnd = random.Random(seed)
    binp = go_test_build("./wirerig/", "wirerig.test")
    try:
        import lifecycle_model
        lifecycle_model.model_check(run, quick)
    except ImportError:
        run.notes.append("Lifecycle.tla model check not available in this build")
    scns = grid(rnd, quick)
    rnd.shuffle(scns)
    traces = sc.run_driver(run, binp, scns, "life", testname="TestLifecycle")
    run.traces = len(scns)
    rejects = sc.validate(run, traces, module="LifecycleTrace", mods=["LifecycleTrace.tla"])
    viol, kn = classify(prop, [r for r in rejects if r[0] == prop])
    run.add_known(kn)
    seen = set()
    for r in viol:
        key = (r[2], r[3].get("role"), r[3].get("cause"))
        if key in seen or len(run.violations) >= 12:
            continue
        seen.add(key)
        run.violation(r, {"property": prop, "kind": "lifecycle", "reject": r, "scenario": sc.find_scenario(scns, r[1])})
    if len(viol) > len(run.violations):
        run.notes.append("%d rejected scenarios in total" % len(viol))
    run.samples = scns[:4]
    run.level = "model_checking"
    run.assumptions = ["the transport is a scripted in-memory net.Conn (Read fed event by event, Write succeeding / failing / blocking until the write deadline)",
                       "real-time executor: settling time 0.45 s before logon, 2.6 s when timers run (HeartBtInt=1: one timeout + tolerance + poll), 5.2 s for the silent-peer disconnect",
                       "goroutines are attributed to the library by their 'created by' frame in the goroutine profile; only goroutines created during the scenario count"]
    return run.finish("scenario = role x termination cause (peer close/reset, write error, peer stops reading, local close, handler stop, silent-peer "
                      "disconnect) x phase (before logon, inside the handshake / inside a message, logged on, during logout) x inbound messages in "
                      "flight (0..3, optionally with a slow application callback so that hand-offs are pending, optionally cut inside a message) x "
                      "outbound sends in progress (0..3) x buffer size 0/1/10; one observation record per scenario validated by LifecycleTrace")


def replay(obj):
    s = obj.get("scenario")
    run = Run("C13", "replay", 0)
    binp = go_test_build("./wirerig/", "wirerig.test")
    traces = sc.run_driver(run, binp, [s], "replay", testname="TestLifecycle")
    rej = sc.validate(run, traces, module="LifecycleTrace", mods=["LifecycleTrace.tla"])
    for r in rej:
        print("  REJECT", json.dumps(r)[:900])
    return 1 if rej else 0
