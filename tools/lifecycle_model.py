"""TLC runs of Lifecycle.tla for the C13 check."""
from vlib import *


def cfg(r, i, t, caps, inmsgs, senders):
    return ("SPECIFICATION Spec\nCONSTANTS\n InMsgs = %d\n Senders = {%s}\n CapR = %d\n CapH = %d\n CapO = %d\n ReaderSendCtx = %s\n"
            " IncomingSendCtx = %s\n HandlerCtxTied = %s\nINVARIANT NoStuck\nCHECK_DEADLOCK FALSE\n"
            % (inmsgs, ",".join(str(x) for x in range(1, senders + 1)), caps[0], caps[1], caps[2], r, i, t))


def model_check(run, quick):
    inmsgs, senders = (3, 2) if quick else (3, 3)
    for caps in ((0, 0, 0), (1, 1, 1)) if quick else ((0, 0, 0), (1, 1, 1), (0, 1, 0), (1, 0, 1)):
        res = tlc("Lifecycle", cfg("TRUE", "TRUE", "TRUE", caps, inmsgs, senders), run.sub("mc-life-%d%d%d" % caps), ["Lifecycle.tla"],
                  workers=NCPU, timeout=1500, heap="8g")
        run.add_mc(res, "Lifecycle (acceptor shape: handler context tied to the connection) caps=%s inbound=%d senders=%d: NoStuck for every cause at every reachable state" % (caps, inmsgs, senders))
    for name, (r, i, t) in (("ReaderSendCtx=FALSE", ("FALSE", "TRUE", "TRUE")), ("IncomingSendCtx=FALSE", ("TRUE", "FALSE", "TRUE")),
                            ("HandlerCtxTied=FALSE (initiator today)", ("TRUE", "TRUE", "FALSE"))):
        res = tlc("Lifecycle", cfg(r, i, t, (0, 0, 0), inmsgs, senders), run.sub("mc-life-weak-" + name[:6]), ["Lifecycle.tla"],
                  workers=NCPU, timeout=1500, heap="8g")
        if "NoStuck is violated" not in res.raw_tail and "NoStuck is violated" not in res.error:
            raise Inconclusive("SPEC-ERROR: weakened Lifecycle (%s) does not violate NoStuck: vacuous" % name)
        run.extra.setdefault("weakened_variants_violating", []).append(name)
