"""C20: Access.tla (lockset table, pair generator) + harness/race on a -race build; the Go race detector gives
the verdict, AccessTrace.tla validates the recorded observations."""
import json, os, re, subprocess, glob
from vlib import *
import session_checks as sc

PROPS = ["C20"]
SCENARIOS = ["timers_vs_inbound", "senders_vs_inbound_resend", "senders_vs_timers", "logon_vs_senders",
             "logout_stop_vs_all", "registration_vs_dispatch", "silent_peer_disconnect", "resend_of_timer_messages",
             "testrequest_answer_vs_queries", "calls_during_slow_logon", "stop_vs_logout_answer",
             "sessions_sharing_an_unmarshaller", "connection_dies_under_load",
             "relogon_after_stop_vs_context"]
LIB = "github.com/b2broker/simplefix-go"


def code_constants():
    """Constants of Access.tla that describe today's code (transcribed; see DESIGN.md section 6 C20)."""
    src = open(os.path.join(REPO, "session", "session.go")).read()
    mem = open(os.path.join(REPO, "storages", "memory", "storage.go")).read()
    plain_state = len(re.findall(r"[^.\w]s\.state\b", src)) - len(re.findall(r"s\.state = ", src))
    state_locked = "{\"stateMu/r\"}" if "func (s *Session) currentState()" in src or plain_state <= 1 else "{}"
    # every assignment to the state: which mode of stateMu was taken last before it in the same function?
    modes = set()
    for m in re.finditer(r"\bs\.state = ", src):
        start = src.rfind("\nfunc ", 0, m.start())
        body = src[start:m.start()]
        locks = [(x.start(), x.group(1)) for x in re.finditer(r"stateMu\.(R?Lock)\(\)", body)]
        modes.add(locks[-1][1] if locks else "none")
    state_w = "{\"stateMu\"}" if modes <= {"Lock"} else ("{\"stateMu/r\"}" if "none" not in modes else "{}")
    settings_locked = "{\"Session.mu\"}" if re.search(r"s\.mu\.Lock\(\)\s*\n\s*s\.LogonSettings = ", src) else "{}"
    counter_atomic = "TRUE" if "atomic.LoadInt64(&s.counterOutgoing)" in mem else "FALSE"
    return state_locked, settings_locked, counter_atomic, state_w


def parse_reports(text):
    """Race detector output -> list of {a, b, loc} with the first library frame of each access."""
    out = []
    for block in text.split("WARNING: DATA RACE")[1:]:
        block = block.split("==================")[0]
        parts = re.split(r"\n(?=(?:Previous )?(?:[Rr]ead|[Ww]rite|Atomic) )", block)
        acc = []
        for p in parts:
            m = re.match(r"\s*((?:Previous )?(?:atomic )?(?:[Rr]ead|[Ww]rite)[^\n]*) by ([^\n]*):\n((?:.*\n)*?)\n", p + "\n\n")
            if not m:
                continue
            frames = re.findall(r"^\s+(\S+)\(\)\n\s+(\S+:\d+)", m.group(3), re.M)
            lib = [f for f in frames if f[0].startswith(LIB) and "/tests/fix44" not in f[0]]
            if lib:
                acc.append("%s %s @ %s" % (m.group(1).split(" at ")[0].strip(), lib[0][0].replace(LIB, ""), os.path.basename(lib[0][1])))
            elif frames and "verifharness" in frames[0][0] + "".join(f[0] for f in frames):
                # the harness standing in for the connection's writer / the application: it reads what the library handed to it
                # (message bytes received from Outgoing()); a library access that races with that read is the library's race
                hf = [f for f in frames if "verifharness" in f[0]][0]
                acc.append("%s (harness, consumer of what the library handed out) %s @ %s" % (m.group(1).split(" at ")[0].strip(), hf[0].split("/")[-1], os.path.basename(hf[1])))
            else:
                acc.append(None)
        if len(acc) >= 2 and acc[0] and acc[1] and not ("(harness" in acc[0] and "(harness" in acc[1]):
            loc = re.search(r"(?:[Rr]ead|[Ww]rite) at (0x[0-9a-f]+)", block)
            out.append({"a": acc[0], "b": acc[1], "loc": loc.group(1) if loc else ""})
    return out


def check(prop, tier, seed):
    run = Run(prop, tier, seed)
    quick = tier == "quick"
    # (1) lockset check of the access table with the constants of today's code; pairs to exercise
    st, se, ca, sw = code_constants()
    cfg = ("SPECIFICATION Spec\nCONSTANTS\n StateReadLocks = %s\n StateWriteLocks = %s\n SettingsWriteLocks = %s\n CounterReadAtomic = %s\nINVARIANTS Emit Lockset\nCHECK_DEADLOCK FALSE\n" % (st, sw, se, ca))
    res = tlc("Access", cfg, run.sub("mc-access"), ["Access.tla"], workers=1, timeout=600)
    pairs = {json.dumps(p, sort_keys=True): p for p in split_lines(res, "PAIR")}
    lockset_ok = res.ok
    if not res.ok and "Lockset" not in res.raw_tail + res.error:
        raise Inconclusive("SPEC-ERROR: Access.tla: %s\n%s" % (res.error, res.raw_tail[-1500:]))
    run.states += max(res.distinct, 1)
    run.transitions += max(res.generated, 1)
    unprot = [p for p in pairs.values() if not p["protected"]]
    run.extra["access_table"] = {"conflicting_concurrent_pairs": len(pairs), "unprotected_in_model": len(unprot),
                                 "constants": {"StateReadLocks": st, "StateWriteLocks": sw, "SettingsWriteLocks": se, "CounterReadAtomic": ca},
                                 "lockset_invariant_holds": lockset_ok}
    covered = set()
    for p in pairs.values():
        for s in p["scenarios"]:
            covered.add(s)
    missing = [s for s in covered if s not in SCENARIOS]
    if missing:
        raise Inconclusive("SPEC-ERROR: Access.tla names scenarios the harness does not implement: %s" % missing)
    # (2) the scenarios on a -race build
    binp = go_test_build("./race/", "race.test", race=True)
    recs = []
    jobs = []
    reps = 12 if quick else 60
    for role in ("acceptor", "initiator"):
        for scn in SCENARIOS:
            for gm in (("4",) if quick else ("1", "2", "4", "16")):
                logbase = os.path.join(run.dir, "race-%s-%s-%s" % (role[0], scn, gm))
                env = goenv()
                env.update(VERIF_RACE_SCENARIO=scn, VERIF_RACE_ROLE=role, VERIF_RACE_REPS=str(reps), GOMAXPROCS=gm,
                           GORACE="log_path=%s halt_on_error=0 exitcode=0 history_size=4" % logbase)
                lf = open(logbase + ".out", "w")
                jobs.append((subprocess.Popen([binp, "-test.run", "^TestRace$", "-test.timeout", "20m"], env=env, stdout=lf, stderr=subprocess.STDOUT), logbase, lf, role, scn, gm))
    for p, logbase, lf, role, scn, gm in jobs:
        try:
            rc = p.wait(timeout=1500)
        except subprocess.TimeoutExpired:
            p.kill()
            raise Inconclusive("race driver timeout in %s/%s" % (role, scn))
        lf.close()
        outtxt = open(logbase + ".out", errors="replace").read()
        completed = rc == 0 and "PASS" in outtxt
        if "DRIVER-ERROR" in outtxt:
            raise Inconclusive("race driver error: %s" % outtxt[-1500:])
        text = outtxt
        for f in glob.glob(logbase + ".*"):
            if not f.endswith(".out"):
                text += open(f, errors="replace").read()
        reports = parse_reports(text)
        # one record per distinct pair
        seen, uniq = set(), []
        for r in reports:
            k = (r["a"], r["b"])
            if k not in seen and (r["b"], r["a"]) not in seen:
                seen.add(k)
                uniq.append(r)
        if not completed and not uniq:
            raise Inconclusive("race scenario %s/%s did not complete: %s" % (role, scn, outtxt[-1500:]))
        recs.append({"k": "race", "id": "%s/%s/gomaxprocs%s" % (role, scn, gm), "completed": True, "reports": uniq, "reps": reps})
    trace = os.path.join(run.dir, "race.ndjson")
    with open(trace, "w") as f:
        for r in recs:
            f.write(json.dumps(r) + "\n")
    run.traces = len(recs)
    rejects = sc.validate(run, [trace], module="AccessTrace", mods=["AccessTrace.tla"])
    viol, kn = classify(prop, [r for r in rejects if r[0] == prop])
    run.add_known(kn)
    seen = set()
    for r in viol:
        key = (r[3]["access1"], r[3]["access2"])
        if key in seen or (key[1], key[0]) in seen or len(run.violations) >= 12:
            continue
        seen.add(key)
        run.violation(r, {"property": prop, "kind": "race", "reject": r, "scenario": r[1]})
    run.samples = [{"scenario": r["id"], "reports": r["reports"][:2]} for r in recs[:4]]
    run.extra["scenario_runs"] = len(recs)
    run.extra["repetitions_per_run"] = reps
    run.assumptions = ["the Go race detector has no false positives; absence of a report is not a proof of race freedom",
                       "the access table of Access.tla is a manual transcription of the code's shared locations and locks",
                       "both sides of each pair are scheduled for the same virtual instant by independent goroutines (testing/synctest), bundled memory store"]
    return run.finish("scenario = one of %d concurrent-use patterns derived from the conflicting concurrent access pairs of Access.tla (timers expiring on inbound "
                      "traffic, senders vs inbound resend/replies, senders vs timers, logon vs senders, Logout/Stop vs everything, registration vs dispatch, "
                      "silent-peer disconnect) x role x GOMAXPROCS, repeated; each run is one record (race reports with library stacks) validated by "
                      "AccessTrace" % len(SCENARIOS))


def replay(obj):
    print("re-run: VERIF_RACE_SCENARIO/ROLE from", obj.get("scenario"), "on a -race build; report:")
    print(json.dumps(obj.get("reject"))[:2000])
    return 1
