#!/usr/bin/env python3
"""rejsum.py <run-dir>: summary of REJECT lines of all trace validations in a run directory."""
import sys, os, json, glob, collections
d = sys.argv[1]
c = collections.Counter(); ex = {}
for f in glob.glob(os.path.join(d, "tv-*", "*.out")):
    seen=set()
    for line in open(f, errors="replace"):
        if line.startswith('"REJECT '):
            if line in seen: continue
            seen.add(line)
            r = json.loads(json.loads(line)[7:])
            det = r[3] if isinstance(r[3], dict) else {}
            key = (r[0], r[2], det.get("action"), det.get("st"), det.get("integ"), det.get("sq"))
            c[key] += 1
            ex.setdefault(key, r)
for k, v in sorted(c.items(), key=lambda x: str(x)):
    print(v, k)
    print("     e.g.", json.dumps(ex[k])[:int(sys.argv[2]) if len(sys.argv) > 2 else 600])
