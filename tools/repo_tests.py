"""Traces of the repository's OWN integration tests (tests/, built with -tags verif so that the trace hooks are active)
validated against Session.tla by SessionEventTrace.tla."""
import json, os, subprocess
from vlib import *
import session_checks as sc

STABLE = "TestHeartbeat|TestTestRequest|TestResendSequence|TestGroup"
SLACK_MS = 150


def split(raw):
    if not raw or raw[-1] != 1:
        return None
    out = []
    for seg in raw[:-1].split(b"\x01"):
        i = seg.find(b"=")
        if i < 0:
            return None
        out.append((seg[:i].decode("latin1"), seg[i + 1:]))
    return out


def digest(raw, seen):
    d = dict(ty="?", seq=-1, hb=-1, enc="", refSeq=-1, refTag=-1, trid=[], b=-1, e=-1, dupOf=0, user="", **{"pass": ""}, framed=False)
    f = split(raw)
    if f is None:
        return d
    first = {}
    for t, v in f:
        first.setdefault(t, v)

    def num(tag):
        try:
            return int(first[tag])
        except Exception:
            return -1
    d["ty"] = first.get("35", b"").decode("latin1")
    d["seq"], d["hb"], d["refSeq"], d["refTag"], d["b"], d["e"] = num("34"), num("108"), num("45"), num("371"), num("7"), num("16")
    d["enc"] = first.get("98", b"").decode("latin1")
    d["trid"] = list(first.get("112", b""))
    d["user"], d["pass"] = first.get("553", b"").decode("latin1"), first.get("554", b"").decode("latin1")
    pre = raw[:-7]
    tags = [t for t, _ in f]
    if len(f) >= 4 and tags[0] == "8" and tags[1] == "9" and tags[2] == "35" and tags[-1] == "10":
        hdr = 2 + len(f[0][1]) + 1 + 2 + len(f[1][1]) + 1
        d["framed"] = num("9") == len(pre) - hdr and ("%03d" % (sum(pre) % 256)).encode() == f[-1][1]
    for i, old in enumerate(seen):
        if old == raw:
            d["dupOf"] = i + 1
            break
    seen.append(raw)
    return d


def action(raw):
    d = digest(raw, [])
    a = sc.act({"A": "logon", "5": "logout", "0": "hbt", "1": "testreq", "2": "resend"}.get(d["ty"], "app" if d["ty"] in ("3", "V", "D", "W", "X", "Y") else "unknown"),
               seq=max(d["seq"], 0), sq="ok" if d["seq"] >= 0 else "missing", integ="none" if d["framed"] else "checksum",
               hb=max(d["hb"], 0), enc=d["enc"] or "0", cred=d["pass"] != "bad", id=d["trid"], b=max(d["b"], 0), e=max(d["e"], 0))
    return a


def record(run, name):
    """run the stable integration tests with the hooks on; returns the path of the ndjson trace for SessionEventTrace"""
    raw_path = os.path.join(run.dir, name + ".hooktrace.txt")
    env = goenv()
    env["VERIF_HOOK_TRACE"] = raw_path
    p = sh(["go", "test", "-tags", "verif", "-vet=off", "-count=1", "-run", STABLE, "./tests/"], cwd=REPO, env=env, timeout=600, check=False)
    if p.returncode != 0 or not os.path.exists(raw_path):
        raise Inconclusive("the repository's integration tests did not pass with -tags verif:\n" + (p.stdout or "")[-2000:])
    out = os.path.join(run.dir, name + ".events.ndjson")
    n, ns = convert(raw_path, out, "repo-tests-")
    return out, n, ns


def convert(raw_path, out, prefix):
    """hook log ("<ms> <kind> <handler> <hex>") -> one SessionEventTrace trace per handler; returns (events, sessions)"""
    sessions = {}
    with open(raw_path) as f:
        for line in f:
            parts = line.rstrip("\n").split(" ")
            if len(parts) < 3:
                continue
            t, kind, hid = int(parts[0]), parts[1], parts[2]
            raw = bytes.fromhex(parts[3]) if len(parts) > 3 and parts[3] else b""
            s = sessions.setdefault(hid, dict(role=None, events=[], seen=[]))
            if kind.startswith("new-"):
                s["role"] = kind[4:]
            elif kind == "in":
                s["events"].append(dict(t=t, kind="in", a=action(raw)))
            elif kind == "out":
                s["events"].append(dict(t=t, kind="out", m=digest(raw, s["seen"])))
    n = 0

    def order(x):
        return (0, int(x[0]), "") if x[0].isdigit() else (1, 0, x[0])
    with open(out, "w") as f:
        for hid, s in sorted(sessions.items(), key=order):
            if not s["events"] or s["role"] is None:
                continue
            outs = [e for e in s["events"] if e["kind"] == "out"]
            hb = 30
            for e in outs:
                if e["m"]["ty"] == "A" and e["m"]["hb"] > 0:
                    hb = e["m"]["hb"]
                    break
            start = (outs[0]["m"]["seq"] - 1) if outs and outs[0]["m"]["seq"] > 0 else 0
            sid = "%s%s-%s" % (prefix, hid, s["role"][0])
            f.write(json.dumps(dict(k="einit", id=sid, i=0, cfg=dict(role=s["role"], hbMin=1, hbMax=60, hbCfg=hb, encCfg="0", allowed=["0"],
                                                                     closeMs=0, startSeq=start))) + "\n")
            for i, e in enumerate(s["events"]):
                r = dict(k="ev", id=sid, i=i + 1, t=e["t"], kind=e["kind"], a=e.get("a", sc.act("none")), m=e.get("m", digest(b"", [])))
                f.write(json.dumps(r) + "\n")
                n += 1
    return n, len(sessions)


def validate(run, path, name):
    cfg = ("SPECIFICATION Spec\nCONSTANTS\n TraceFile = \"%s\"\n Slack = %d\nPOSTCONDITION TraceAccepted\nCHECK_DEADLOCK FALSE\n" % (path, SLACK_MS))
    res = tlc("SessionEventTrace", cfg, run.sub("tv-" + name), ["Session.tla", "SessionEventTrace.tla"], workers=1, timeout=900, heap="3g")
    if not res.ok:
        raise Inconclusive("validation of the repository tests' trace failed: %s\n%s" % (res.error, res.raw_tail[-2000:]))
    run.states += res.distinct
    run.transitions += res.generated
    seen, out = set(), []
    for r in split_lines(res, "REJECT"):
        k = json.dumps(r)
        if k not in seen:
            seen.add(k)
            out.append(r)
    return out


def check(run):
    """Returns (rejects that reproduced in two independent runs of the tests, events validated)."""
    p1, n1, ns = record(run, "repotests1")
    r1 = validate(run, p1, "repotests1")
    run.extra["repository_tests_traced"] = {"tests": STABLE, "sessions": ns, "events": n1, "slack_ms": SLACK_MS, "rejected_first_run": len(r1)}
    run.records += n1
    if not r1:
        return []
    # real time: only what reproduces in a second, independent run counts
    p2, n2, _ = record(run, "repotests2")
    r2 = validate(run, p2, "repotests2")
    keys2 = {(r[0], r[2]) for r in r2}
    both = [r for r in r1 if (r[0], r[2]) in keys2]
    run.extra["repository_tests_traced"]["rejected_in_both_runs"] = len(both)
    return both
