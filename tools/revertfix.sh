#!/bin/bash
# tools/revertfix.sh : for every "fix:" commit of /repo, re-introduce the defect (reverse patch on the working tree),
# run the check of the property it was recorded under (quick), and restore /repo.  Results -> seeded/revert-<hash>/.
set -u
cd /verif
python3 - <<'PY' > out/revert-list.txt
import json,re
k=json.load(open('/verif/known_findings.json'))
for f in k['fixed']:
    m=re.match(r'fixed: property=(C\d+) ([0-9a-f]{7}) (.*)', f)
    if m: print(m.group(2), m.group(1), m.group(3).replace('\n',' ')[:300])
PY
while read -r hash prop what; do
  d=/verif/seeded/revert-$hash; mkdir -p $d
  git -C /repo diff $hash^ $hash > $d/fix.diff
  if ! git -C /repo apply -R --check $d/fix.diff 2>/dev/null; then
     echo "revert-$hash ($prop): reverse patch does not apply cleanly on HEAD (later fixes touch the same lines): skipped"; continue
  fi
  git -C /repo apply -R $d/fix.diff
  git -C /repo diff > $d/patch.diff
  if ! (cd /repo && go build ./... 2>/dev/null); then echo "revert-$hash: does not build"; git -C /repo checkout -- .; continue; fi
  timeout 1500 bin/check $prop quick > $d/check_$prop.log 2>&1; rc=$?
  git -C /repo checkout -- .
  nv=$(grep -c '^VIOLATION' $d/check_$prop.log)
  echo "revert-$hash ($prop): check exit $rc, $nv violation lines :: $what"
  python3 - "$d" "$hash" "$prop" "$rc" "$nv" "$what" <<'PY'
import json,sys
d,h,p,rc,nv,what=sys.argv[1:7]
json.dump({"property":p,"origin":"reverse of fix commit %s in /repo (the original defect re-introduced)"%h,"summary":what,
           "needs":"see the fix commit message","checks_run":[p],"result":"check %s quick: exit %s, %s VIOLATION lines"%(p,rc,nv),
           "demo":"the check's replay files at the time the defect was found; the fix commit message describes the failing case"},open(d+"/meta.json","w"),indent=1)
PY
done < out/revert-list.txt
git -C /repo status --short
