#!/bin/bash
# tools/scratchrun.sh <repo-checkout> <command...>
# runs a command from a scratch copy of /verif against another checkout of the library (VERIF_REPO), leaving /verif (harness/go.mod,
# out/, evidence/) and /repo alone; for experiments with seeded changes while other checks are running
set -u
wt=$1; shift
scratch=$(mktemp -d /tmp/sr-XXXX)
trap 'rm -rf $scratch' EXIT
rsync -a --exclude out --exclude .git --exclude seeded /verif/ $scratch/verif/
cd $scratch/verif
export GOCACHE=/verif/out/gocache VERIF_REPO=$wt
"$@"
