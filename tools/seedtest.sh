#!/bin/bash
# tools/seedtest.sh <seed-id> <worktree> <prop> [<prop>...]
# confirms a seeded change in its scratch worktree (builds, suite passes, demo fails with / passes without),
# then runs the listed checks (quick) from a scratch copy of /verif against that worktree.
set -u
id=$1; wt=$2; shift 2
export GOFLAGS=-mod=mod GOPROXY=off GOSUMDB=off
out=/verif/seeded/$id
mkdir -p $out
patch=$out/patch.diff
demo_cmd=$(python3 -c "import json;print(json.load(open('$out/meta.json'))['demo_cmd'])")
echo "== $id: confirm in $wt"
cd $wt || exit 2
git checkout -q -- . 2>/dev/null
git apply $patch || { echo "PATCH DOES NOT APPLY"; exit 2; }
go build ./... || { echo "BUILD FAILS"; exit 2; }
suite=$(go test -vet=off -count=1 ./... 2>&1 | grep -v "no test files" | grep -c "^FAIL\|^panic")
echo "suite failures (excluding demo) with patch: $suite"
bash -c "$demo_cmd" > $out/demo_with_patch.log 2>&1; rc1=$?
git apply -R $patch
bash -c "$demo_cmd" > $out/demo_without_patch.log 2>&1; rc2=$?
echo "demo exit with patch: $rc1 (want != 0); without: $rc2 (want 0)"
# the checks run from a scratch copy of /verif against the scratch worktree with the patch applied (VERIF_REPO): /repo itself,
# /verif/evidence and /verif/out are left alone, so several of these can run side by side
git apply $patch || exit 2
scratch=$(mktemp -d /tmp/sv-$id-XXXX)
trap 'rm -rf $scratch' EXIT
# the demonstration (untracked files of the worktree) is not part of the change: set it aside while the checks run
mkdir -p $scratch/demo
(cd $wt && git ls-files --others --exclude-standard -z | xargs -0 -r cp --parents -t $scratch/demo && git clean -fdq)
trap 'cp -r $scratch/demo/. $wt/; rm -rf $scratch' EXIT
rsync -a --exclude out --exclude .git --exclude seeded /verif/ $scratch/verif/
cd $scratch/verif
export GOCACHE=/verif/out/gocache
for p in "$@"; do
  VERIF_REPO=$wt timeout 1500 bin/check $p quick > $out/check_$p.log 2>&1; rc=$?
  echo "check $p quick: exit $rc  $(grep -c '^VIOLATION' $out/check_$p.log) violation lines"
  grep "^  detail" $out/check_$p.log | head -2 | cut -c1-300
done
