#!/usr/bin/env python3
"""tools/selftest.py: demonstrates the binding of every trace module (DESIGN 5.6): a genuine trace recorded from the
real code is accepted; the same trace with one recorded field corrupted, one event dropped, or two events swapped is
rejected.  Exit 0 when every corruption is rejected and every genuine trace accepted."""
import copy, json, os, random, sys
sys.path.insert(0, os.path.dirname(os.path.abspath(__file__)))
from vlib import *
import session_checks as sc, codec_checks, framing_checks, repo_tests

ok_all = True


def report(name, what, rejected, want):
    global ok_all
    good = rejected == want
    ok_all = ok_all and good
    print("%-18s %-44s %s" % (name, what, ("rejected" if rejected else "accepted") + ("" if good else "   <-- UNEXPECTED")))


def tlc_rejects(run, module, mods, path, tag, extra_consts=""):
    n = sum(1 for _ in open(path))
    cfg = "SPECIFICATION Spec\nCONSTANTS\n TraceFile = \"%s\"\n%sPOSTCONDITION TraceAccepted\nCHECK_DEADLOCK FALSE\n" % (path, extra_consts)
    res = tlc(module, cfg, run.sub("st-" + tag), mods, workers=1, timeout=900, heap="4g")
    if not res.ok and not split_lines(res, "REJECT"):
        return True   # TLC itself refused the trace (e.g. a record it cannot evaluate)
    return len(split_lines(res, "REJECT")) > 0 or res.depth != n + 1


def write(path, recs):
    with open(path, "w") as f:
        for r in recs:
            f.write(json.dumps(r) + "\n")


def main():
    run = Run("SELFTEST", "replay", 0)
    rnd = random.Random(7)
    # ---- SessionTrace ----
    binp = go_test_build("./sess/", "sess.test")
    p = sc.Peer()
    scn = dict(id="st", cfg=sc.cfg("acceptor"), steps=[sc.act("run"), p("logon", hb=30), p("testreq", id=[65, 66]), sc.act("send"), p("resend", b=1, e=0),
                                                         sc.act("advance", ms=33001), p("hbt"), p("logout")])
    tr = sc.run_driver(run, binp, [scn], "selftest")[0]
    recs = [json.loads(l) for l in open(tr)]
    def variant(name, f):
        v = copy.deepcopy(recs)
        f(v)
        path = os.path.join(run.dir, "st-%s.ndjson" % name)
        write(path, v)
        return path
    M, mods = "SessionTrace", ["Session.tla", "SessionTrace.tla"]
    report("SessionTrace", "genuine trace", tlc_rejects(run, M, mods, variant("genuine", lambda v: None), "s0"), False)
    report("SessionTrace", "TestReqID byte changed in the Heartbeat reply", tlc_rejects(run, M, mods, variant("f1", lambda v: v[3]["outs"][0]["trid"].__setitem__(0, 90)), "s1"), True)
    report("SessionTrace", "IsLogged flipped after the Logon", tlc_rejects(run, M, mods, variant("f2", lambda v: v[2].__setitem__("logged", False)), "s2"), True)
    report("SessionTrace", "one retransmission dropped", tlc_rejects(run, M, mods, variant("f3", lambda v: v[5]["outs"].pop()), "s3"), True)
    report("SessionTrace", "two steps swapped (send <-> testreq)", tlc_rejects(run, M, mods, variant("f4", lambda v: (v.__setitem__(3, recs[4]), v.__setitem__(4, recs[3]))), "s4"), True)
    report("SessionTrace", "timer heartbeat 2 s early", tlc_rejects(run, M, mods, variant("f5", lambda v: [o.__setitem__("t", o["t"] - 2000) for o in v[6]["outs"][:1]]), "s5"), True)
    # ---- FixWireTrace ----
    drv = go_build("./cmd/wiredrv", "wiredrv")
    obs = os.path.join(run.dir, "codec.ndjson")
    sh([drv, "-mode", "gen", "-seed", "5", "-n", "6", "-families", "cases", "-out", obs], timeout=300)
    crecs = [json.loads(l) for l in open(obs)]
    crecs = [r for r in crecs if r["serOk"] and len(r["wire"]) > 30][:3]
    def cvariant(name, f):
        v = copy.deepcopy(crecs)
        f(v)
        path = os.path.join(run.dir, "cw-%s.ndjson" % name)
        write(path, v)
        return path
    M, mods = "FixWireTrace", ["FixWire.tla", "FixWireTrace.tla"]
    report("FixWireTrace", "genuine records", tlc_rejects(run, M, mods, cvariant("genuine", lambda v: None), "c0"), False)
    report("FixWireTrace", "one byte of the wire changed", tlc_rejects(run, M, mods, cvariant("f1", lambda v: v[0]["wire"].__setitem__(12, (v[0]["wire"][12] % 90) + 33)), "c1"), True)
    report("FixWireTrace", "last checksum digit changed", tlc_rejects(run, M, mods, cvariant("f2", lambda v: v[1]["wire"].__setitem__(-2, 48 + (v[1]["wire"][-2] - 47) % 10)), "c2"), True)
    # ---- FramingTrace ----
    fb = go_test_build("./wirerig/", "wirerig.test")
    msgs = [framing_checks.gen_msg(rnd) for _ in range(3)]
    total = sum(len(m) for m in msgs)
    fs = dict(id="fs", role="acceptor", buf=1, senders=2, conns=[dict(sent=[list(m) for m in msgs], chunks=[7, total - 7], out=4)])
    ftr = sc.run_driver(run, fb, [fs], "selfframe", testname="TestFraming")[0]
    frecs = [json.loads(l) for l in open(ftr)]
    def fvariant(name, f):
        v = copy.deepcopy(frecs)
        f(v)
        path = os.path.join(run.dir, "fr-%s.ndjson" % name)
        write(path, v)
        return path
    M, mods = "FramingTrace", ["Framing.tla", "FramingTrace.tla"]
    report("FramingTrace", "genuine record", tlc_rejects(run, M, mods, fvariant("genuine", lambda v: None), "f0"), False)
    report("FramingTrace", "two delivered messages swapped", tlc_rejects(run, M, mods, fvariant("f1", lambda v: v[0]["delivered"].reverse()), "f1"), True)
    report("FramingTrace", "one written byte changed", tlc_rejects(run, M, mods, fvariant("f2", lambda v: v[0]["written"][0].__setitem__(3, 88)), "f2"), True)
    # ---- SessionEventTrace (the repository's own tests, through the hooks) ----
    path, n, ns = repo_tests.record(run, "selfrepo")
    erecs = [json.loads(l) for l in open(path)]
    consts = " Slack = %d\n" % repo_tests.SLACK_MS
    def evariant(name, f):
        v = copy.deepcopy(erecs)
        f(v)
        pth = os.path.join(run.dir, "ev-%s.ndjson" % name)
        write(pth, v)
        return pth
    M, mods = "SessionEventTrace", ["Session.tla", "SessionEventTrace.tla"]
    first_reply = next(i for i, r in enumerate(erecs) if r["k"] == "ev" and r["kind"] == "out" and r["m"]["ty"] == "A" and erecs[i - 1].get("kind") == "in")
    report("SessionEventTrace", "genuine trace of the repository's tests", tlc_rejects(run, M, mods, evariant("genuine", lambda v: None), "e0", consts), False)
    report("SessionEventTrace", "Logon reply removed (hook dropped)", tlc_rejects(run, M, mods, evariant("f1", lambda v: v.pop(first_reply)), "e1", consts), True)
    report("SessionEventTrace", "HeartBtInt changed in the Logon reply", tlc_rejects(run, M, mods, evariant("f2", lambda v: v[first_reply]["m"].__setitem__("hb", 7)), "e2", consts), True)
    print("SELFTEST", "OK" if ok_all else "FAILED")
    sys.exit(0 if ok_all else 1)


main()
