"""C05: SendPath.tla (locking discipline of the send path, weakened variants as schedule source) bound
to the real session by harness/sess/sendpath.go: release orders forced at gates inside application-provided
code (counter store, message store, outgoing handler, the message's ToBytes) in real time, plus free-running
senders + inbound replies + both timers in virtual time; the wire is validated by WireTrace.tla."""
import itertools, json, os, random
from vlib import *
import session_checks as sc

PROPS = ["C05"]

VARIANTS = [("TRUE", "TRUE", "TRUE", True), ("TRUE", "FALSE", "TRUE", True), ("FALSE", "TRUE", "TRUE", False),
            ("FALSE", "FALSE", "TRUE", False), ("FALSE", "TRUE", "FALSE", False)]


def sp_cfg(s, h, a, senders, per):
    return ("SPECIFICATION Spec\nCONSTANTS\n Senders = {%s}\n PerSender = %d\n SessionLock = %s\n HandlerLock = %s\n AtomicCounter = %s\n"
            " Start = 0\nINVARIANTS WireConsecutive StoredBeforeWire AllSent\nCHECK_DEADLOCK FALSE\n"
            % (",".join(str(i) for i in range(1, senders + 1)), per, s, h, a))


def midser_scenarios():
    """a retransmission of everything sent so far is requested while the newest message is being serialized"""
    return [dict(id="midser-%s-%d-%d" % (role[0], n, buf), kind="midser", role=role, gate="", n=n, order=[], startSeq=0, buf=buf, perSender=0, hb=30, seed=1,
                 replyAt=-1, reuse=False, **{"yield": 0}) for role in ("acceptor", "initiator") for n in (0, 2) for buf in (1, 10)]


def stress_scenarios(rnd, n):
    return [dict(id="stress-%d" % i, kind="stress", role=rnd.choice(["acceptor", "initiator"]), n=rnd.choice([2, 4, 8, 16]),
                 perSender=rnd.choice([3, 10, 30]), hb=rnd.choice([1, 2]), seed=rnd.randint(1, 10**6),
                 startSeq=rnd.choice([0, 0, 7]), buf=rnd.choice([0, 1, 10]), replyAt=-1, reuse=(i % 3 == 2),
                 **{"yield": rnd.choice([0, 3, 10, 30])}) for i in range(n)]


def stress_rejects(run, seed, quick):
    """free-running senders + inbound replies / retransmissions + timers (virtual time, several GOMAXPROCS): WireTrace's rejects"""
    rnd = random.Random(seed * 7919 + 11)
    binp = go_test_build("./sess/", "sess.test")
    scns = stress_scenarios(rnd, 60 if quick else 1500) + midser_scenarios()
    traces = []
    for gi, gm in enumerate(["4", "16"]):
        part = [s for j, s in enumerate(scns) if j % 2 == gi]
        traces += sc.run_driver(run, binp, part, "stress-gomax%s" % gm, testname="TestSendPath", extra_env={"GOMAXPROCS": gm})
    run.traces += len(scns)
    run.extra["concurrent_send_resend_stress"] = {"scenarios": len(scns)}
    return sc.validate(run, traces, module="WireTrace", mods=["WireTrace.tla"])


def check(prop, tier, seed):
    run = Run(prop, tier, seed)
    quick = tier == "quick"
    rnd = random.Random(seed)
    binp = go_test_build("./sess/", "sess.test")
    senders, per = (3, 2) if quick else (4, 2)
    for s, h, a, holds in VARIANTS:
        res = tlc("SendPath", sp_cfg(s, h, a, senders, per), run.sub("mc-%s%s%s" % (s[0], h[0], a[0])), ["SendPath.tla"],
                  workers=NCPU, timeout=1500, heap="8g")
        violated = "WireConsecutive is violated" in res.raw_tail or "WireConsecutive is violated" in res.error
        if holds:
            run.add_mc(res, "SendPath SessionLock=%s HandlerLock=%s AtomicCounter=%s senders=%d x %d: WireConsecutive holds" % (s, h, a, senders, per))
        else:
            if not violated:
                raise Inconclusive("SPEC-ERROR: weakened SendPath (SessionLock=%s HandlerLock=%s AtomicCounter=%s) does not violate WireConsecutive: vacuous" % (s, h, a))
            run.extra.setdefault("weakened_variants_violating", []).append("SessionLock=%s HandlerLock=%s AtomicCounter=%s" % (s, h, a))
    # unbounded number of messages: inductive invariant of SendPathInd discharged by Apalache (two obligations), and the
    # weakened variant must fail (non-vacuity)
    import shutil, tempfile
    apa = tempfile.mkdtemp(prefix="verif-apalache-")
    try:
        shutil.copy(os.path.join(SPEC, "SendPathInd.tla"), apa)
        obligations = [("Init => IndInv", ["--cinit=CInit", "--init=Init", "--inv=IndInv", "--length=0"], True),
                       ("IndInv /\\ Next => IndInv'", ["--cinit=CInit", "--init=IndInit", "--inv=IndInv", "--length=1"], True),
                       ("weakened (no session lock): IndInv /\\ Next => IndInv' must FAIL", ["--cinit=CInitWeak", "--init=IndInit", "--inv=IndInv", "--length=1"], False)]
        done = []
        for name, args, must_hold in obligations:
            p = sh(["apalache-mc", "check"] + args + ["SendPathInd.tla"], cwd=apa, timeout=900, check=False)
            holds = "EXITCODE: OK" in (p.stdout or "")
            if holds != must_hold:
                raise Inconclusive("SPEC-ERROR: Apalache obligation '%s': expected %s\n%s" % (name, "to hold" if must_hold else "a counterexample", (p.stdout or "")[-1500:]))
            done.append(name)
        run.extra["apalache_inductive_invariant"] = {"module": "SendPathInd.tla", "senders": 3, "messages": "unbounded", "obligations_discharged": done[:2],
                                                     "non_vacuity": done[2]}
        # the same invariant proved with TLAPS for ANY set of senders (SendPathProof.tla)
        import re
        shutil.copy(os.path.join(SPEC, "SendPathProof.tla"), apa)
        p = sh(["tlapm", "--threads", str(min(8, NCPU)), "SendPathProof.tla"], cwd=apa, timeout=1200, check=False)
        m = re.search(r"All (\d+) obligations? proved", p.stdout or "")
        if not m:
            raise Inconclusive("SPEC-ERROR: TLAPS did not prove SendPathProof.tla:\n%s" % (p.stdout or "")[-2000:])
        run.extra["tlaps_proof"] = {"module": "SendPathProof.tla", "theorems": ["InitInv", "StepInv", "Safety: Spec => []WireConsecutive"],
                                    "obligations": int(m.group(1)), "discharged": int(m.group(1)), "senders": "any set", "messages": "unbounded",
                                    "scope": "the model of the send path (one lock, counter, enqueue), not the Go code"}
    finally:
        shutil.rmtree(apa, ignore_errors=True)
    # schedules: every release order of n senders at every gate (covers the counterexamples of the weakened variants)
    scns = []
    k = 0
    for gate in ("counter", "save", "handler", "tobytes"):
        for n in ((2, 3) if quick else (2, 3, 4)):
            perms = list(itertools.permutations(range(n)))
            if quick and len(perms) > 6:
                perms = rnd.sample(perms, 6)
            for order in perms:
                for role in ("acceptor", "initiator"):
                    scns.append(dict(id="gate-%d" % k, kind="gate", role=role, gate=gate, n=n, order=list(order),
                                     startSeq=rnd.choice([0, 0, 4]), buf=rnd.choice([0, 1, 10]), replyAt=-1))
                    k += 1
                    # the same schedule with a reply of the inbound path produced while senders are held at the gate
                    scns.append(dict(id="gate-%d" % k, kind="gate", role=role, gate=gate, n=n, order=list(order),
                                     startSeq=rnd.choice([0, 0, 4]), buf=rnd.choice([1, 10]), replyAt=rnd.randint(0, n)))
                    k += 1
    ngate = len(scns)
    scns += stress_scenarios(rnd, 40 if quick else 1500) + midser_scenarios()
    traces = []
    # GOMAXPROCS settings: the pool is split over them
    for gi, gm in enumerate((["1", "4", "16"] if quick else ["1", "2", "4", "16"])):
        part = [s for j, s in enumerate(scns) if j % (3 if quick else 4) == gi]
        traces += sc.run_driver(run, binp, part, "sp-gomax%s" % gm, testname="TestSendPath", extra_env={"GOMAXPROCS": gm})
    run.traces = len(scns)
    rejects = sc.validate(run, traces, module="WireTrace", mods=["WireTrace.tla"])
    # identifiers and numbering on the messages a session sends in answer to Logons it refuses or cannot read, and under boundary
    # configurations (SessionTrace's history monitor "ids" and its C05-tagged comparisons)
    cfg_scns = sc.gen_config() + sc.gen_prelogon(rnd, 40 if quick else 600) + [x for x in sc.gen_systematic() if "minutes" in x["id"]]
    rejects += [r for r in sc.validate(run, sc.run_driver(run, binp, cfg_scns, "sp-config")) if r[0] == "C05"]
    run.traces += len(cfg_scns)
    # the whole library end to end over TCP: the byte stream each side really wrote, under bursts and transport back-pressure
    import stack_checks
    rejects += stack_checks.check(run, quick, seed)
    rejects += stack_checks.shared_check(run, quick)
    viol, kn = classify(prop, [r for r in rejects if r[0] == prop])
    run.add_known(kn)
    seen = set()
    for r in viol:
        if (r[2], r[3].get("kind"), r[3].get("gate")) in seen or len(run.violations) >= 10:
            continue
        seen.add((r[2], r[3].get("kind"), r[3].get("gate")))
        if "#" in r[1] and sc.find_scenario(cfg_scns, r[1].split("#")[0]):
            run.violation(r, {"property": prop, "kind": "session", "reject": r, "scenario": sc.find_scenario(cfg_scns, r[1].split("#")[0])})
            continue
        run.violation(r, stack_checks.replay_obj(prop, r) or {"property": prop, "kind": "sendpath", "reject": r, "scenario": sc.find_scenario(scns, r[1])})
    if len(viol) > len(run.violations):
        run.notes.append("%d rejected executions in total" % len(viol))
    run.samples = scns[:2] + scns[ngate:ngate + 2]
    run.extra["gate_schedules"] = ngate
    run.extra["stress_runs"] = len(scns) - ngate
    run.assumptions = ["gates are in application-provided code only (CounterStorage, MessageStorage, outgoing handler, the message's ToBytes); arbitrary delays there are the property's 'arbitrary delays inside the application's stores and handlers'",
                       "gate schedules run in real time with bounded waits (a sender that cannot reach the gate within 30 ms is treated as blocked by a lock: the schedule is infeasible on this code, which can only lose a schedule, never raise an alarm)",
                       "the verdict is taken from the wire only", stack_checks.ASSUMPTION]
    return run.finish("execution = (gate, number of senders, release order) for all permutations at 4 gates, both roles, several buffer sizes and "
                      "stored counters, plus seeded free-running stress runs (2..16 senders, inbound replies/rejects, both timers expiring) in virtual "
                      "time under GOMAXPROCS 1/4/16; each execution's wire is one trace record validated by WireTrace; distinct by scenario parameters")


def replay(obj):
    s = obj.get("scenario")
    run = Run("C05", "replay", 0)
    binp = go_test_build("./sess/", "sess.test")
    traces = sc.run_driver(run, binp, [s], "replay", testname="TestSendPath")
    rej = sc.validate(run, traces, module="WireTrace", mods=["WireTrace.tla"])
    for r in rej:
        print("  REJECT", json.dumps(r)[:700])
    return 1 if rej else 0
