"""Session family: C05(content) C06 C07 C08 C09 C10 C14 C15 C16 -- Session.tla / MCSession.tla /
SessionTrace.tla bound to the real session.Session + DefaultHandler by harness/sess (virtual time).

Pipeline: (1) TLC checks the properties on the model exhaustively (MCSession, action properties
P06..P16, invariants I05 I07) and prints explored histories as scenarios; (2) more scenarios come
from TLC -simulate (deeper) and from the targeted generators below (timing around deadlines,
TestReqID contents, resend ranges); (3) harness/sess replays every scenario on the real code inside
a synctest bubble and records a trace; (4) TLC validates the trace against SessionTrace; the verdict
of property X is taken from the REJECT lines tagged X (R2)."""
import zlib, json, os, random, subprocess, concurrent.futures
from vlib import *

PROPS = ["C06", "C07", "C08", "C09", "C10", "C14", "C15", "C16"]


MODS = ["Session.tla", "MCSession.tla", "SessionTrace.tla"]


def mc_cfg(role, family, depth, hbmin=1, hbmax=3, hbcfg=2, closems=1000, startseq=0, emit=True):
    return ("SPECIFICATION Spec\nCONSTANTS\n Role = \"%s\"\n Family = \"%s\"\n Depth = %d\n HbMin = %d\n HbMax = %d\n"
            " HbCfg = %d\n CloseMs = %d\n StartSeq = %d\nINVARIANTS I07 I05 %s\nPROPERTIES Props\nCHECK_DEADLOCK FALSE\n"
            % (role, family, depth, hbmin, hbmax, hbcfg, closems, startseq, "EmitScn" if emit else ""))


NOT_NUMBERS = ["3.", "5 ", " 5", "30.", "1e1", "0x1F", "18446744073709551646", "9223372036854775808", "1-", "--1", "2,", "4/", "1.0", "٣", "3\t"]


def act(a, **kw):
    d = dict(a=a, seq=0, sq="ok", integ="none", hb=0, enc="0", cred=True, id=[], b=0, e=0, ms=0, mid="", midSeq=0, omit="", pipe=False)
    # ("extra", "empty", "numTxt" are filled in by run_driver unless a generator sets them)
    d.update(kw)
    return d


def cfg(role, hbmin=1, hbmax=60, hbcfg=30, closems=1000, startseq=0, buf=10, savefailfrom=0, creds="", savefailonly=0, ctrfailonly=0):
    return dict(role=role, hbMin=hbmin, hbMax=hbmax, hbCfg=hbcfg, encCfg="0", allowed=["0"],
                closeMs=closems, startSeq=startseq, buf=buf, saveFailFrom=savefailfrom, creds=creds, saveFailOnly=savefailonly, ctrFailOnly=ctrfailonly,
                imposeHb=0)


class Peer:
    """numbers the peer's messages"""
    def __init__(self):
        self.n = 0

    def __call__(self, a, **kw):
        self.n += 1
        return act(a, seq=self.n, **kw)


def logged_on_prefix(role, hb, p):
    if role == "acceptor":
        return [act("run"), p("logon", hb=hb)]
    return [act("run"), p("logon", hb=hb)]


ALL_KINDS = ["idle", "sendnear", "inboundnear", "silence", "answer", "steady", "burst", "stop", "logoutthenidle", "relogon", "relogonsteady",
             "midcall", "whilewaiting", "logoutnoanswer", "burststeady"]


def gen_core(rnd):
    """multi-step patterns that are always part of the pool (every kind, both roles, a short and a long interval)"""
    out = []
    for kind in ALL_KINDS:
        reps = 4 if kind in ("whilewaiting", "midcall", "stop", "logoutnoanswer") else 1
        out += gen_timing(rnd, reps, kinds=[kind], Ns=(1, 30), tag="core")
    return out


def gen_timing(rnd, n_per, kinds=None, Ns=(1, 2, 3, 5, 10, 30, 60), tag="tm"):
    """C08 / C09 / C15 scenarios: sends and arrivals just before / on / after the deadlines."""
    out = []
    for role in ("acceptor", "initiator"):
        for N in Ns:
            T = N * 1000
            tin = (N + max(1, N // 20)) * 1000
            base_cfg = cfg(role, hbmin=1, hbmax=60, hbcfg=N, closems=rnd.choice([0, 1, 500, 1000, 10000]))
            for k in range(n_per):
                p = Peer()
                st = logged_on_prefix(role, N, p)
                kind = rnd.choice(kinds or ALL_KINDS)
                if kind == "idle":
                    st += [act("advance", ms=rnd.choice([T - 1, T, T + T // 10, 3 * T, 7 * T + 13]))]
                elif kind == "sendnear":
                    for _ in range(rnd.randint(1, 4)):
                        st += [act("advance", ms=max(1, T + rnd.choice([-T // 10, -1, 0, 1, T // 20]))), act("send")]
                        st += [p("hbt")]
                    st += [act("advance", ms=T + T // 10 + 5)]
                elif kind == "inboundnear":
                    for _ in range(rnd.randint(1, 4)):
                        st += [act("advance", ms=max(1, tin + rnd.choice([-tin // 10, -1, 0, 1, tin // 20]))), p(rnd.choice(["hbt", "app", "unknown", "testreq"]), id=[65])]
                    st += [act("advance", ms=tin // 2)]
                elif kind == "silence":
                    st += [act("advance", ms=rnd.choice([tin - 1, tin + tin // 10, 2 * tin - 1, 2 * tin + tin // 5 + 1, 3 * tin]))]
                elif kind == "answer":
                    st += [act("advance", ms=tin + tin // 10 + 1)]
                    st += [act("advance", ms=rnd.choice([1, tin // 2, tin - tin // 10 - 2])), p(rnd.choice(["hbt", "app", "unknown", "logon"]), hb=N)]
                    st += [act("advance", ms=rnd.choice([tin // 2, tin + tin // 10 + 1, 2 * tin + tin // 4]))]
                elif kind == "steady":
                    for _ in range(rnd.randint(5, 50)):
                        st += [act("advance", ms=rnd.choice([T, T - 1, T // 2, max(1, T // 10)])), p(rnd.choice(["hbt", "app"]))]
                elif kind == "burst":
                    for _ in range(rnd.randint(2, 6)):
                        st += [act("send")]
                    st += [act("advance", ms=T - 1), act("send"), act("advance", ms=T), p("hbt"), act("advance", ms=T + T // 10 + 1)]
                elif kind == "stop":
                    st += [act("advance", ms=rnd.choice([1, T // 2])), act("stop")]
                    c = base_cfg["closeMs"]
                    if rnd.random() < 0.6 and c > 1:
                        st += [act("advance", ms=rnd.choice([1, c // 2, c - 1])), p("logout"), act("advance", ms=c)]
                    else:
                        st += [act("advance", ms=max(1, c - 1)), act("advance", ms=1), act("advance", ms=5)]
                elif kind == "logoutthenidle":
                    st += [p("logout"), act("advance", ms=rnd.choice([T, tin + tin // 10 + 1, 3 * tin])), p("hbt"), p("testreq", id=[66])]
                elif kind == "relogon":
                    st += [act("advance", ms=rnd.choice([T // 2, T])), p("logout"), act("advance", ms=rnd.choice([1, 300, T, 2 * T])),
                           p("logon", hb=N), act("advance", ms=rnd.choice([T + T // 10 + 1, 3 * T]))]
                elif kind == "whilewaiting":
                    # the session has sent its own TestRequest; every kind of inbound message arrives while it waits for the answer
                    st += [act("advance", ms=tin + tin // 10 + 1)]
                    k2 = rnd.choice(["testreq", "logon", "logon-noseq", "resend", "logout", "hbt-bad", "testreq-noseq"])
                    if k2 == "logon-noseq":
                        st += [p("logon", hb=N, sq="missing")]
                    elif k2 == "testreq-noseq":
                        st += [p("testreq", id=[70], sq="missing")]
                    elif k2 == "hbt-bad":
                        st += [p("hbt", integ="checksum")]
                    else:
                        st += [p(k2, hb=N, id=[71], b=1, e=0)]
                    st += [p("testreq", id=[72]), act("advance", ms=T // 2), p("hbt"), act("advance", ms=T + T // 10 + 1)]
                elif kind == "logoutnoanswer":
                    # a local Logout the peer never answers, then more traffic
                    st += [act("advance", ms=rnd.choice([1, T // 2])), act("llogout"), act("advance", ms=rnd.choice([tin + tin // 10 + 1, 2 * tin + tin // 4, T]))]
                    st += [p(rnd.choice(["hbt", "app", "testreq", "resend", "logout", "logout"]), id=[73], b=1, e=0), p("hbt"), act("advance", ms=tin + tin // 10 + 1)]
                elif kind == "burststeady":
                    # two inbound messages a little more than the tolerance apart, then the peer speaks again exactly N after the
                    # second one, several times: never silent for longer than N, so never probed
                    tol = max(1, N // 20) * 1000
                    for _ in range(rnd.randint(2, 5)):
                        st += [act("advance", ms=rnd.choice([T // 3, T // 2])), p("hbt"),
                               act("advance", ms=rnd.choice([tol + 1, tol + max(1, (tin // 10 - tol) // 2), max(tol + 1, tin // 10 - 1)])), p("app"),
                               act("advance", ms=T), p("hbt")]
                elif kind == "relogonsteady":
                    # a second logon on the same session, then a live peer (period <= N) for many periods: never probed
                    st += [act("advance", ms=rnd.choice([T // 2, T])), p("logout"), act("advance", ms=rnd.choice([1, 300, T])), p("logon", hb=N)]
                    for _ in range(rnd.randint(4, 12)):
                        st += [act("advance", ms=rnd.choice([T, T - 1, T // 2, max(1, T // 3)])), p(rnd.choice(["hbt", "app", "testreq"]), id=[66])]
                elif kind == "midcall":
                    # the peer's message is delivered while a local call's own message is still inside the send path
                    st += [act("advance", ms=rnd.choice([1, T // 2]))]
                    for _ in range(rnd.randint(1, 3)):
                        p.n += 1
                        st += [act(rnd.choice(["send", "llogout", "send"]), mid=rnd.choice(["logout", "hbt", "testreq", "logout"]), midSeq=p.n, hb=N)]
                        st += [p("hbt"), p("logon", hb=N)]
                out.append(dict(id="%s-%s-%d-%s-%d" % (tag, role[0], N, kind, k), cfg=base_cfg, steps=st))
    return out


def gen_systematic():
    """Deterministic multi-step patterns, always part of the pool: (a) the session's own TestRequest is answered by every kind of
    message other than a Heartbeat, early or late, and the peer then falls silent again: a second TestRequest after a full period,
    the disconnect only after another one; (b) every kind of message crosses the session's own Logout (Logout() or Stop()) on the
    wire before the peer's Logout answer arrives: no second Logout, logout event, context cancelled on the answer."""
    out = []
    # (f) after a completed logout (ours answered by the peer, or the peer's answered by us) the peer goes on: a Logon nobody asked
    # for, a TestRequest, a Heartbeat, a ResendRequest, a second Logout
    for role in ("acceptor", "initiator"):
        for how in ("llogout", "stop", "peer"):
            for k, after in enumerate(("logon", "testreq", "hbt", "resend", "logout")):
                p = Peer()
                st = logged_on_prefix(role, 30, p) + [act("send")]
                st += [p("logout")] if how == "peer" else [act(how), p("logout")]
                st += [p(after, hb=30, id=[79], b=1, e=0), p("logon", hb=30), p("testreq", id=[80])]
                out.append(dict(id="sys-%s-afterlogout-%s-%s" % (role[0], how, after), cfg=cfg(role, closems=2000), steps=st))
    # (e) an idle session whose heartbeats are whole minutes apart, and sends exactly one / sixty minutes after one another
    for role in ("acceptor", "initiator"):
        for N in (60, 120):
            p = Peer()
            st = logged_on_prefix(role, N, p) + [act("advance", ms=N * 1000 // 2), p("hbt"), act("advance", ms=N * 1000 // 2 + N * 100 + 1), p("hbt"),
                                                 act("advance", ms=N * 1000 - N * 100 - 1), p("hbt"), act("advance", ms=N * 1000 + N * 100 + 1)]
            out.append(dict(id="sys-%s-%d-idle-minutes" % (role[0], N), cfg=cfg(role, hbmin=1, hbmax=120, hbcfg=N, closems=1000), steps=st))
        p = Peer()
        st = logged_on_prefix(role, 120, p) + [act("advance", ms=7000), act("send"), act("advance", ms=60000), act("send"), p("hbt"), act("advance", ms=3600000 - 60000 - 119000),
                                               act("send")]
        out.append(dict(id="sys-%s-sends-minutes-apart" % role[0], cfg=cfg(role, hbmin=1, hbmax=10000, hbcfg=9000, closems=1000), steps=[dict(a, hb=9000) if a["a"] == "logon" else a for a in st]))
    for role in ("acceptor", "initiator"):
        for N in (1, 5, 30):
            T = N * 1000
            tin = (N + max(1, N // 20)) * 1000
            for ans in ("app", "unknown", "testreq", "resend", "hbt"):
                for delay in (1, tin // 2):
                    p = Peer()
                    st = logged_on_prefix(role, N, p)
                    st += [act("advance", ms=tin + tin // 10 + 1), act("advance", ms=delay), p(ans, id=[81], b=1, e=0),
                           act("advance", ms=tin - tin // 10 - 2), act("advance", ms=tin // 5 + 3), act("advance", ms=tin + tin // 10 + 1)]
                    out.append(dict(id="sys-%s-%d-answer-%s-%d" % (role[0], N, ans, delay), cfg=cfg(role, hbmin=1, hbmax=60, hbcfg=N, closems=1000), steps=st))
            # (c) the application's message store starts refusing saves after the logon: nothing can be sent any more, the peer is
            # silent: the disconnect still comes after two periods, and an inbound message in between still postpones it
            for mid in ("none", "hbt", "app"):
                p = Peer()
                st = logged_on_prefix(role, N, p)
                st += [act("advance", ms=tin + tin // 10 + tin // 20 + 1)]
                if mid != "none":
                    st += [p(mid), act("advance", ms=tin + tin // 10 + tin // 20 + 1)]
                st += [act("advance", ms=tin + tin // 10 + tin // 20 + 5), act("advance", ms=tin)]
                out.append(dict(id="sys-%s-%d-storefail-%s" % (role[0], N, mid), cfg=cfg(role, hbmin=1, hbmax=60, hbcfg=N, closems=1000, savefailfrom=2), steps=st))
            # (d) a single Save fails (an application send in the middle of a heartbeat interval): that message does not leave, so it
            # does not postpone the heartbeat either
            for frac in (3, 2):
                p = Peer()
                st = logged_on_prefix(role, N, p)
                st += [act("advance", ms=T // frac), act("send"), act("advance", ms=T - T // frac + T // 10 + 1), p("hbt"), act("send"), act("advance", ms=T + T // 10 + 1)]
                out.append(dict(id="sys-%s-%d-savefail-once-%d" % (role[0], N, frac), cfg=cfg(role, hbmin=1, hbmax=60, hbcfg=N, closems=1000, savefailonly=2), steps=st))
            # (d') the single failing Save hits a message the SESSION sends itself (the Heartbeat that answers a TestRequest): that one
            # message is lost, the session goes on - heartbeats, probes of a silent peer and all.  (Not: the timer Heartbeat itself
            # fails to be saved - then the session cannot help being silent for longer than the interval, C19 forbids sending it.)
            for which, k in (("reply", 2),):
                p = Peer()
                st = logged_on_prefix(role, N, p)
                if which == "reply":
                    st += [act("advance", ms=T // 3), p("testreq", id=[85])]
                st += [act("advance", ms=T + T // 10 + 1), p("hbt"), act("advance", ms=T + T // 10 + 1), p("hbt"), act("advance", ms=T + T // 10 + 1)]
                out.append(dict(id="sys-%s-%d-savefail-own-%s" % (role[0], N, which), cfg=cfg(role, hbmin=1, hbmax=60, hbcfg=N, closems=1000, savefailonly=k), steps=st))
            for call in ("llogout", "stop"):
                for cross in ("hbt", "testreq", "app", "resend", "unknown"):
                    for closems in (500, 20000):
                        p = Peer()
                        st = logged_on_prefix(role, N, p)
                        st += [act("advance", ms=T // 3), act(call), p(cross, id=[82], b=1, e=0), act("advance", ms=100), p("logout"),
                               act("advance", ms=300), act("advance", ms=closems + 10)]
                        out.append(dict(id="sys-%s-%d-%s-crossed-by-%s-%d" % (role[0], N, call, cross, closems),
                                        cfg=cfg(role, hbmin=1, hbmax=60, hbcfg=N, closems=closems), steps=st))
    return out


def gen_config():
    """boundary configurations: heartbeat limits with Min = Max, several allowed encryption methods, close timeout 0, buffer sizes 0 / 1"""
    out = []
    k = 0
    for hbmin, hbmax in ((30, 30), (1, 1), (60, 60), (5, 6)):
        for hb in sorted({hbmin - 1, hbmin, hbmax, hbmax + 1}):
            for buf in (0, 1):
                p = Peer()
                st = [act("run"), p("logon", hb=hb), p("testreq", id=[65]), act("send"), p("logon", hb=hbmin), p("hbt"), p("logout"), p("logon", hb=hbmax)]
                c = cfg("acceptor", hbmin=hbmin, hbmax=hbmax, hbcfg=hbmin, closems=0, buf=buf)
                out.append(dict(id="cfg-hb-%d" % k, cfg=c, steps=st))
                k += 1
    for allowed in (["0", "2"], ["2"], ["0", "2", "5"], ["10"]):
        for enc in ("0", "2", "5", "1", "10", "20", ""):
            p = Peer()
            st = [act("run"), p("logon", hb=30, enc=enc), p("testreq", id=[66]), p("logon", hb=30, enc=allowed[0]), act("send"), p("logout")]
            c = cfg("acceptor", closems=1)
            c["allowed"] = allowed
            out.append(dict(id="cfg-enc-%d" % k, cfg=c, steps=st))
            k += 1
    # the application registers handlers of its own before the session exists and removes one of them again afterwards
    for role in ("acceptor", "initiator"):
        p = Peer()
        st = logged_on_prefix(role, 30, p) + [p("testreq", id=[71]), p("app"), p("testreq", id=[72]), act("send"), p("logout")]
        c = cfg(role)
        c["removeDance"] = True
        out.append(dict(id="cfg-remove-%s" % role[0], cfg=c, steps=st))
        # ... and unregisters its two all-types outgoing handlers after the logon: traffic still postpones the heartbeat (the
        # session's own handlers are all still there)
        for N in (2, 30):
            T = N * 1000
            p = Peer()
            st = logged_on_prefix(role, N, p) + [act("rmhooks"), act("advance", ms=T // 2), act("send"), act("advance", ms=T // 2 + 1), p("hbt"),
                                                 act("advance", ms=T // 2 + T // 10 + 1), p("hbt"), act("send"), p("testreq", id=[82]), act("advance", ms=T + T // 10 + 1)]
            c = cfg(role, hbmin=1, hbmax=60, hbcfg=N)
            c["removeDance"] = True
            out.append(dict(id="cfg-rmhooks-%s-%d" % (role[0], N), cfg=c, steps=st))
    # Stop() / Logout() whose Logout cannot be saved: the context is still cancelled at the close timeout
    for role in ("acceptor", "initiator"):
        for call in ("stop", "llogout"):
            for closems in (50, 2000):
                p = Peer()
                st = logged_on_prefix(role, 30, p) + [act("advance", ms=10), act(call), act("advance", ms=closems - 1), act("advance", ms=5), act("advance", ms=500)]
                out.append(dict(id="cfg-%s-unsaved-%s-%d" % (call, role[0], closems), cfg=cfg(role, closems=closems, savefailonly=2), steps=st))
    # Logons that carry ResetSeqNumFlag (141=Y): refused ones are still refused, approved ones log on, the numbering goes on from
    # the Logon's number (an initiating application that set the flag itself included)
    for role in ("acceptor", "initiator"):
        for first in ("refused", "approved"):
            p = Peer()
            st = [act("run")]
            if first == "refused" and role == "acceptor":
                st += [p("logon", hb=30, cred=False, extra=10), p("testreq", id=[83], extra=0)]
            st += [p("logon", hb=30, extra=10), act("send"), p("testreq", id=[84], extra=0), act("send"), p("resend", b=1, e=0, extra=0), p("logout", extra=0)]
            c = cfg(role)
            c["resetFlag"] = True
            out.append(dict(id="cfg-reset141-%s-%s" % (role[0], first), cfg=c, steps=st))
    # the application's logon callback imposes a heartbeat interval of its own (it rewrites the settings it is handed): the Logon
    # answer announces it and BOTH timers run on it - a peer that is live by that interval is not probed, a silent one is
    for ask, impose in ((1, 3), (4, 1)):
        T = impose * 1000
        tin = (impose + max(1, impose // 20)) * 1000
        p = Peer()
        st = [act("run"), p("logon", hb=ask)]
        # (the application itself sends several times per interval, so that no heartbeat is due and the inbound side is seen alone)
        for _ in range(4):
            for _ in range(3):
                st += [act("advance", ms=T // 4), act("send")]
            st += [act("advance", ms=T // 20), p("hbt")]
        for nsend in (5, 3):     # (the second time fewer: nothing is sent once the silent peer has been disconnected)
            for k in range(nsend):
                st += [act("advance", ms=T // 4), act("send")]
            st += [act("advance", ms=tin + tin // 10 + 1 - nsend * (T // 4))]
        c = cfg("acceptor", hbmin=1, hbmax=60)
        c["imposeHb"] = impose
        out.append(dict(id="cfg-impose-%d-%d" % (ask, impose), cfg=c, steps=st))
    # the application's state-change callbacks consume their events (return false): Stop still ends on the peer's answer, also in
    # the second lifetime of the session object
    for role in ("acceptor", "initiator"):
        for variant in ("stop", "second-stop", "second-llogout"):
            p = Peer()
            st = logged_on_prefix(role, 30, p)
            if variant != "stop":
                st += [act("llogout"), p("logout")] + ([act("relogon")] if role == "initiator" else []) + [p("logon", hb=30)]
            st += [act("send"), act("llogout" if variant.endswith("llogout") else "stop"), act("advance", ms=10), p("logout"), act("advance", ms=3000)]
            c = cfg(role, closems=2000)
            c["evFalse"] = True
            out.append(dict(id="cfg-evfalse-%s-%s" % (variant, role[0]), cfg=c, steps=st))
    # the counter store refuses one update of the incoming counter (and works again afterwards): whatever arrives just then -- the
    # peer's Logout, its answer to our Logout / Stop, a TestRequest, a ResendRequest -- is still handled (no time passes in these
    # scenarios: what a refused update means for the inbound timer is not the properties' business)
    for role in ("acceptor", "initiator"):
        for n in (0, 1, 2):
            for tail in ("logout", "llogout", "stop", "testreq", "resend"):
                p = Peer()
                st = logged_on_prefix(role, 30, p)
                for j in range(n):
                    st.append(p(["hbt", "testreq", "app"][(n + j) % 3], id=[74]))
                if tail in ("llogout", "stop"):
                    st += [act(tail), p("logout"), p("hbt")]
                elif tail == "logout":
                    st += [p("logout"), p("hbt"), p("testreq", id=[75])]
                elif tail == "testreq":
                    st += [p("testreq", id=[76]), p("testreq", id=[77]), p("logout")]
                else:
                    st += [act("send"), p("resend", b=1, e=0), p("testreq", id=[78]), p("logout")]
                out.append(dict(id="cfg-ctrfail-%s-%s-%d" % (tail, role[0], n), cfg=cfg(role, closems=1000, ctrfailonly=n + 2), steps=st))   # (the Logon's own update is the first)
    # an initiator whose Logon is answered with another heartbeat interval, or none: its own timers keep the interval it asked for
    for variant, kw in (("other", dict(hb=30)), ("none", dict(hb=0, omit="hb")), ("zero", dict(hb=0))):
        p = Peer()
        st = [act("run"), p("logon", **kw), act("advance", ms=1101), p("hbt"), act("advance", ms=1101), act("send"), act("advance", ms=1101)]
        out.append(dict(id="cfg-ini-answer-hb-%s" % variant, cfg=cfg("initiator", hbcfg=1), steps=st))
    # an initiator configured with a user name only, a password only, neither: its Logon carries exactly what is configured
    for creds in ("useronly", "passonly", "none"):
        p = Peer()
        st = logged_on_prefix("initiator", 30, p) + [act("send"), p("logout"), act("relogon"), p("logon", hb=30), p("testreq", id=[68])]
        out.append(dict(id="cfg-creds-%s" % creds, cfg=cfg("initiator", creds=creds), steps=st))
    # a Logon that lacks EncryptMethod / HeartBtInt, as the first message and after Logons that were refused or damaged
    for omit in ("enc", "hb", "both"):
        for before in ("none", "cred", "hb-high", "checksum", "nonnum", "accepted-then-logout"):
            p = Peer()
            st = [act("run")]
            if before == "cred":
                st.append(p("logon", hb=30, cred=False))
            elif before == "hb-high":
                st.append(p("logon", hb=999))
            elif before in ("checksum", "nonnum"):
                st.append(p("logon", hb=30, integ=before))
            elif before == "accepted-then-logout":
                st += [p("logon", hb=30), p("logout")]
            st.append(p("logon", hb=0 if omit in ("hb", "both") else 30, enc="" if omit in ("enc", "both") else "0", omit=omit))
            st += [p("testreq", id=[69]), p("resend", b=1, e=0), p("logon", hb=30), p("hbt")]
            out.append(dict(id="cfg-omit-%s-after-%s" % (omit, before), cfg=cfg("acceptor", startseq=3), steps=st))
            k += 1
    for role in ("acceptor", "initiator"):
        for closems in (0, 1):
            for buf in (0, 1):
                p = Peer()
                st = logged_on_prefix(role, 30, p) + [act("send"), act("stop"), act("stop"), p("logout"), act("send"), act("llogout"), p("hbt")]
                out.append(dict(id="cfg-stop-%d" % k, cfg=cfg(role, closems=closems, buf=buf), steps=st))
                k += 1
                p = Peer()
                st = logged_on_prefix(role, 30, p) + [act("llogout"), act("llogout"), p("logout"), act("llogout"), p("logon", hb=30), act("send")]
                out.append(dict(id="cfg-logout-%d" % k, cfg=cfg(role, closems=closems, buf=buf), steps=st))
                k += 1
    return out


def gen_lookalike():
    """C18 at the level of the session: application messages whose values / longer tag numbers look like the fields the session itself
    looks up (MsgType 35, MsgSeqNum 34), then a logout and a second Logon with the next number: every message was counted, so no
    retransmission is asked for; and with a gap: it is asked for from the right number."""
    out = []
    texts = [b"see rule 35=4", b"35=4", b"x 34=9", b"34=2", b"35=A", b"10=000", b"35=5"]
    tags = [(135, 4), (1035, 4), (935, 4), (134, 9), (1034, 1), (3435, 4), (350, 4), (340, 7), (347, 7)]
    for role in ("acceptor", "initiator"):
        for gap in (0, 2):
            for variant in range(3):
                p = Peer()
                st = logged_on_prefix(role, 30, p)
                for i, t in enumerate(texts):
                    if i % 3 == variant:
                        st.append(p("app", id=list(t)))
                for i, (tg, v) in enumerate(tags):
                    if i % 3 == variant:
                        st.append(p("app", b=tg, e=v))
                # (the Logout itself carries look-alike text: it is the last message counted before the second Logon)
                st += [p("testreq", id=list(b"35=4")), p("logout", id=list(texts[variant]))]
                if role == "initiator":
                    st.append(act("relogon"))
                p.n += gap
                st.append(p("logon", hb=30))
                st += [p("hbt"), act("send")]
                out.append(dict(id="look-%s-%d-%d" % (role[0], gap, variant), cfg=cfg(role), steps=st))
    # messages that are REJECTED although well formed (not permitted in the current state) or damaged, whose values contain the text
    # of a framing / header field (the BeginString field as a whole, '34=', '9='): the Reject still refers to the message's own number
    # a longer tag ending in 35 / 34 with a plausible value AHEAD of the genuine MsgType / MsgSeqNum field, before and after logon
    for role in ("acceptor", "initiator"):
        for ex in (5, 6, 7, 8, 9, 10, 11):
            p = Peer()
            st = [act("run"), p("app", extra=ex), p("unknown", extra=ex), p("hbt", extra=ex), p("testreq", id=[73], extra=ex), p("logon", hb=30, extra=ex),
                  p("app", extra=ex), p("testreq", id=[74], extra=ex), p("hbt", extra=ex), p("resend", b=1, e=0, extra=ex), p("logout", extra=ex), p("logon", hb=30, extra=ex)]
            out.append(dict(id="look-ahead-%s-%d" % (role[0], ex), cfg=cfg(role), steps=st))
    frag = [b"alice via gw 8=FIX.4.4 relay", b"8=FIX.4.4", b"x\x0234=7", b"9=12", b"8=FIX.4.4\x0234=1", b"34=99 8=FIX.4.4 35=A"]
    for role in ("acceptor", "initiator"):
        for i, t in enumerate(frag):
            p = Peer()
            st = [act("run"), p("testreq", id=list(t)), p("logout", id=list(t)), p("logon", hb=30), p("testreq", id=list(t), integ="checksum"),
                  p("testreq", id=list(t), integ="nonnum"), p("logout", id=list(t), integ="bodylength"), p("logon", hb=30), p("testreq", id=list(t)),
                  p("logout", id=list(t)), p("logout", id=list(t)), p("testreq", id=list(t))]
            out.append(dict(id="look-rej-%s-%d" % (role[0], i), cfg=cfg(role), steps=st))
    return out


def gen_ids(rnd, n):
    """C14: TestReqID contents and positions."""
    out = []
    ids = [[b] for b in range(0, 256) if b != 1]
    ids += [list(b"112=X"), list(b"10=000"), list(b"A=B=C"), list(b" "), list(b"  x  "), list(b"35=0"), list(b"0123456789"),
            list(b"x" * 512), list(b"34=9"), list(b"\x02\x03"), list(b"=")]
    for _ in range(n):
        ids.append([rnd.choice([c for c in range(256) if c != 1]) for _ in range(rnd.randint(1, 64))])
    # identifiers longer than a transport's read buffer, with the text "10=" around the buffer boundaries (counted from the start of
    # the value and from the start of the message)
    # (a reader that takes buffer-sized pieces of a long field sees a piece start at offset 4096 - len("112=") of the value, or
    # 4096 - (bytes of the message before the value) if it counts from the start of the message: ~4096 - 75)
    offs = [4091, 4092, 4093, 8188, 4096, 4095] + rnd.sample(list(range(4005, 4040)) + [4000, 4088, 4090, 4094, 8150, 8180, 8189, 8190, 8192, 12284], 4 + min(n // 50, 16))
    for off in offs:
        ids.append(list(b"y" * off + b"10=123" + b"z" * rnd.randint(0, 30)))
    ids.append(list(b"q" * 6000))
    rnd.shuffle(ids)
    per = 12
    for i in range(0, len(ids), per):
        role = "acceptor" if (i // per) % 2 == 0 else "initiator"
        p = Peer()
        st = logged_on_prefix(role, 30, p)
        for idv in ids[i:i + per]:
            r = rnd.random()
            if r < 0.2:
                st.append(p("hbt"))
            elif r < 0.3:
                st.append(act("send"))
            elif r < 0.35:
                st.append(p("app"))
            if len(idv) > 3000 and rnd.random() < 0.4:
                # an invalid administrative message with a field longer than any buffer: still one Reject, session undisturbed
                st.append(p("testreq", id=idv, integ=rnd.choice(["checksum", "bodylength", "nonnum"])))
            st.append(p("testreq", id=idv))
        out.append(dict(id="id-%d" % i, cfg=cfg(role), steps=st))
    # (the same through every other administrative type: a long Text / unknown field next to the damage)
    for role in ("acceptor", "initiator"):
        p = Peer()
        st = logged_on_prefix(role, 30, p)
        for integ in ("checksum", "bodylength", "nonnum"):
            st += [p("testreq", id=list(b"L" * 5000), integ=integ), p("hbt"), p("testreq", id=[65])]
        st += [p("app", id=list(b"T" * 9000)), p("logout", id=list(b"bye " * 1500))]
        out.append(dict(id="id-long-damaged-%s" % role[0], cfg=cfg(role), steps=st))
    return out


def gen_resend(rnd, n):
    """C10: outbound histories then every range; gap pairs."""
    out = []
    for k in range(n):
        role = rnd.choice(["acceptor", "initiator"])
        start = rnd.choice([0, 0, 3])
        p = Peer()
        st = logged_on_prefix(role, 30, p)
        sent = rnd.randint(0, 8)
        for _ in range(sent):
            st.append(rnd.choice([act("send"), p("testreq", id=[65]), p("hbt", integ="checksum")]))
        if rnd.random() < 0.5:
            # idle periods: the history then contains timer heartbeats (and a test request), which are resent like anything else
            for _ in range(rnd.randint(1, 3)):
                st.append(act("advance", ms=rnd.choice([30000, 33001, 61000])))
                st.append(p("hbt"))
                sent += 2
        last_guess = start + sent + 2
        for _ in range(rnd.randint(1, 6)):
            b = rnd.randint(0, last_guess + 2)
            e = rnd.choice([0, b, rnd.randint(0, last_guess + 2)])
            st.append(p("resend", b=b, e=e))
        out.append(dict(id="rs-%d" % k, cfg=cfg(role, startseq=start), steps=st))
    # a second run of numbers on the same store: the application rewinds the outgoing counter between two logons; a retransmission
    # then gives what was last sent under a number, byte for byte
    for role in ("acceptor", "initiator"):
        for n1, n2 in ((3, 2), (2, 4), (4, 4)):
            p = Peer()
            st = logged_on_prefix(role, 30, p)
            st += [act("send") for _ in range(n1)] + [p("testreq", id=[66])]
            st += [p("logout"), act("advance", ms=1500), act("resetout")]   # (later SendingTimes: the second run's messages differ from the first's)
            st += [act("relogon")] if role == "initiator" else []
            st += [p("logon", hb=30)]
            st += [act("send") for _ in range(n2)] + [p("testreq", id=[67])]
            st += [p("resend", b=1, e=0), p("resend", b=2, e=3), p("resend", b=1, e=n2 + 1)]
            out.append(dict(id="rs-rewind-%s-%d-%d" % (role[0], n1, n2), cfg=cfg(role), steps=st))
    # an application handler that amends every outgoing message: the retransmission is still byte-identical to the first transmission
    for role in ("acceptor", "initiator"):
        p = Peer()
        st = logged_on_prefix(role, 30, p) + [act("send"), p("testreq", id=[70]), act("send"), p("resend", b=1, e=0), act("send"), p("resend", b=2, e=4)]
        c = cfg(role)
        c["stamp"] = True
        out.append(dict(id="rs-stamp-%s" % role[0], cfg=c, steps=st))
    # gap pairs (expected, received)
    for role in ("acceptor", "initiator"):
        for first in range(1, 6):
            for second in range(1, 8):
                st = [act("run"), act("logon", seq=first, hb=30)]
                st += [act("logout", seq=first + 1), act("logon", seq=first + 1 + second, hb=30)]
                out.append(dict(id="gap-%s-%d-%d" % (role[0], first, second), cfg=cfg(role), steps=st))
    return out


def gen_prelogon(rnd, n):
    """C07 / C16: histories without an acceptable Logon, empty and pre-loaded stores."""
    out = []
    kinds = ["resend", "testreq", "hbt", "logout", "logon-bad", "app", "unknown", "advance"]
    for k in range(n):
        role = rnd.choice(["acceptor", "acceptor", "initiator"])
        start = rnd.choice([0, 3, 7])
        p = Peer()
        st = [act("run")]
        for _ in range(rnd.randint(1, 8)):
            kd = rnd.choice(kinds)
            integ = rnd.choice(["none", "none", "none", "checksum", "bodylength", "nonnum"])
            sq = rnd.choice(["ok", "ok", "ok", "missing", "nonnum"])
            if kd == "resend":
                st.append(p("resend", b=rnd.randint(0, start + 2), e=rnd.choice([0, rnd.randint(0, start + 3)]), integ=integ, sq=sq))
            elif kd == "logon-bad":
                if role == "initiator":
                    st.append(p("logon", hb=30, integ=rnd.choice(["checksum", "bodylength", "nonnum", "grpcount"]), sq=sq))
                else:
                    which = rnd.choice(["hb", "enc", "cred", "integ"])
                    st.append(p("logon", hb=0 if which == "hb" else 30, enc="7" if which == "enc" else "0",
                                cred=which != "cred", integ="checksum" if which == "integ" else "none", sq=sq if which == "integ" else "ok"))
            elif kd == "advance":
                st.append(act("advance", ms=rnd.choice([1000, 31000, 70000])))
            elif kd == "testreq":
                st.append(p("testreq", id=[65, 66], integ=integ, sq=sq))
            else:
                st.append(p(kd, integ=integ if kd in ("hbt", "logout") else "none", sq=sq if kd in ("hbt", "logout") else "ok"))
        out.append(dict(id="pre-%d" % k, cfg=cfg(role, startseq=start), steps=st))
    # every kind of refused Logon, then both timer deadlines pass, then more inbound traffic: still nothing but A / 5 / 3
    j = 0
    for which in ("hb-low", "hb-high", "enc", "cred", "checksum", "bodylength", "nonnum", "seqnonnum", "grpcount"):
        for hb in (1, 30):
            for start in (0, 4):
                p = Peer()
                st = [act("run")]
                kw = dict(hb=hb)
                if which == "hb-low":
                    kw["hb"] = 0
                elif which == "hb-high":
                    kw["hb"] = 61
                elif which == "enc":
                    kw["enc"] = "5"
                elif which == "cred":
                    kw["cred"] = False
                elif which == "seqnonnum":
                    kw["sq"] = "nonnum"
                else:
                    kw["integ"] = which
                st.append(p("logon", **kw))
                # (the second period ends after a TestRequest would be due and before a disconnect would be: a session whose timers
                # run although the Logon was refused is then in the state in which any inbound message makes it "logged on")
                tin = (hb + max(1, hb // 20)) * 1000
                st += [act("advance", ms=hb * 1000 + hb * 100 + 1), act("advance", ms=tin - hb * 1000 + tin // 10), p("hbt"), p("testreq", id=[65]),
                       p("resend", b=1, e=0), act("advance", ms=(hb + 2) * 2200), p("app"), p("resend", b=1, e=start)]
                out.append(dict(id="pre-refused-%d-%s" % (j, which), cfg=cfg("acceptor", startseq=start), steps=st))
                j += 1
    return out


def gen_damage(rnd, n):
    """C16: every admin type x damage x state x position, followed by valid traffic."""
    out = []
    k = 0
    for role in ("acceptor", "initiator"):
        for state in ("pre", "logged", "wlo", "afterlogout", "wtr"):
            for ty in ("logon", "logout", "hbt", "testreq", "resend"):
                for integ, sq in (("checksum", "ok"), ("bodylength", "ok"), ("nonnum", "ok"), ("none", "nonnum"),
                                  ("none", "missing"), ("checksum", "missing"), ("bodylength", "nonnum"), ("none", "ok")):
                    p = Peer()
                    st = [act("run")]
                    if state != "pre":
                        st.append(p("logon", hb=30))
                        st += [act("send"), p("hbt")]
                    if state == "wtr":
                        st.append(act("advance", ms=33001))   # hb=30: the inbound timeout passes, the session sends its TestRequest
                    if state == "wlo":
                        st.append(act("llogout"))
                    if state == "afterlogout":
                        st.append(p("logout"))
                    st.append(p(ty, hb=30, id=[65], b=1, e=0, integ=integ, sq=sq))
                    # valid traffic afterwards
                    st += [p("testreq", id=[67]), p("hbt")]
                    if state == "pre" and role == "acceptor":
                        st += [p("logon", hb=30), p("testreq", id=[68])]
                    out.append(dict(id="dm-%d" % k, cfg=cfg(role), steps=st))
                    k += 1
    rnd.shuffle(out)
    return out[:n] if n else out


def tlc_scenarios(run, role, family, depth, simulate=None, keep=None, rnd=None, **kw):
    name = "mc-%s-%s-%d%s" % (role[0], family, depth, "-sim" if simulate else "")
    res = tlc("MCSession", mc_cfg(role, family, depth, **kw), run.sub(name), ["Session.tla", "MCSession.tla"],
              workers=(1 if simulate else NCPU), timeout=1500, simulate=simulate, heap="16g",
              extra=(["-depth", str(depth + 1)] if simulate else None))
    scns = split_lines(res, "SCN")
    if simulate:
        # -simulate ends with "exit after num traces" and no state count; it is used for scenarios only
        if res.error and "Error" in res.error and "violated" in res.raw_tail:
            raise Inconclusive("SPEC-ERROR: MCSession simulate %s: %s" % (name, res.raw_tail[-1500:]))
    else:
        run.add_mc(res, "MCSession role=%s family=%s depth=%d (P06 P06b P06c P10 P14 P15 P16 I05 I07)" % (role, family, depth))
    if keep is not None and len(scns) > keep:
        scns = rnd.sample(scns, keep)
    for i, sc in enumerate(scns):
        sc["id"] = "%s-%d" % (name, i)
    return scns


def run_driver(run, binp, scns, name, testname="TestScenarios", extra_env=None):
    """Replay scenarios on the real code, sharded over processes; returns trace file paths."""
    scn_path = os.path.join(run.dir, name + ".scn.ndjson")
    with open(scn_path, "w") as f:
        for sc in scns:
            # a numeric field that cannot be parsed: half of the time "present without a value" instead of letters
            for i, a in enumerate(sc["steps"] if isinstance(sc.get("steps"), list) else []):
                if isinstance(a, dict) and "a" in a and "empty" not in a:
                    nn = a.get("sq") == "nonnum" or a.get("integ") == "nonnum"
                    h = zlib.crc32(("%s#%d" % (sc.get("id"), i)).encode())
                    a["empty"] = nn and h % 4 == 0
                    # other shapes of "not a number": digits with a stray character, blanks, exponents, hex, numerals beyond the
                    # range of an int (2^64 + 30, 2^63); "" = letters
                    a["numTxt"] = NOT_NUMBERS[(h // 4) % len(NOT_NUMBERS)] if nn and h % 4 in (1, 2) else ""
                    # the same message written differently (an unknown field, header fields in another order): one in four valid ones
                    if "extra" not in a:
                        a["extra"] = 1 + (h // 8) % 11 if (not nn and a.get("integ", "none") == "none" and a.get("sq", "ok") == "ok" and h % 4 == 3) else 0
                        # a damaged message that also carries PossDupFlag=Y (one in three of those with a damaged CheckSum / BodyLength)
                        if a.get("integ", "none") in ("checksum", "bodylength") and a.get("sq", "ok") == "ok" and h % 3 == 0:
                            a["extra"] = 11
            # deployment options that must make no difference: a non-strict unmarshaller, a store that answers with nothing instead
            # of an error (a third of the scenarios each)
            if isinstance(sc.get("cfg"), dict):
                hc = zlib.crc32(("%s/deploy" % sc.get("id")).encode())
                sc["cfg"].setdefault("nonStrict", hc % 3 == 0)
                sc["cfg"].setdefault("laxStore", (hc // 3) % 3 == 0)
                sc["cfg"].setdefault("resetFlag", (hc // 9) % 2 == 0)
            f.write(json.dumps(sc) + "\n")
    shards = min(NCPU, max(1, len(scns) // 20))
    procs = []
    for i in range(shards):
        tr = os.path.join(run.dir, "%s.trace.%d.ndjson" % (name, i))
        env = goenv()
        env.update(VERIF_SCN=scn_path, VERIF_TRACE=tr, VERIF_SHARD="%d/%d" % (i, shards))
        if extra_env:
            env.update(extra_env)
        lf = open(tr + ".log", "w")
        procs.append((subprocess.Popen([binp, "-test.run", "^" + testname + "$", "-test.timeout", "50m"], env=env, stdout=lf, stderr=subprocess.STDOUT), tr, lf))
    traces = []
    for p, tr, lf in procs:
        try:
            rc = p.wait(timeout=int(os.environ.get("VERIF_DRIVER_TIMEOUT", "3600")))   # (patience only: the real-time drivers of the thorough tier take 15-25 min on a loaded machine)
        except subprocess.TimeoutExpired:
            p.kill()
            raise Inconclusive("session driver timeout")
        lf.close()
        if rc != 0:
            with open(tr + ".log") as f:
                txt = f.read()
            import re
            lc = library_crash(txt)
            if lc:
                raise LibraryPanic(lc[0], lc[1], name)
            mh = re.search(r"^LIBRARY-HANG scenario (\S+) did not finish[^\n]*$", txt, re.M)
            if mh:
                stacks = txt[mh.end():]
                # goroutines of the library that wait for a lock or a channel
                blocked = re.findall(r"goroutine \d+ \[(?:sync\.Mutex\.Lock|sync\.RWMutex\.R?Lock|semacquire|chan send|chan receive|select)[^\]]*\]:\n(?:.*\n)*?\n", stacks)
                lib = [b for b in blocked if "github.com/b2broker/simplefix-go" in b and "sync.(*" in b]
                if lib:
                    raise LibraryPanic("scenario %s never finished: a goroutine of the library is blocked for good on a lock" % mh.group(1),
                                       "".join(lib)[:3000], name)
            raise Inconclusive("session driver failed (exit %d):\n%s" % (rc, txt[-3000:]))
        traces.append(tr)
    return traces


def trace_cfg(path):
    return ("SPECIFICATION Spec\nCONSTANT TraceFile = \"%s\"\nPOSTCONDITION TraceAccepted\nCHECK_DEADLOCK FALSE\n" % path)


def validate_one(args):
    run_dir, path, idx = args[:3]
    module = args[3] if len(args) > 3 else "SessionTrace"
    mods = args[4] if len(args) > 4 else ["Session.tla", "SessionTrace.tla"]
    n = 0
    with open(path) as f:
        for _ in f:
            n += 1
    if n == 0:
        return (path, 0, None, [])
    wd = os.path.join(run_dir, "tv-%d" % idx)
    res = tlc(module, trace_cfg(path), wd, mods, workers=1, timeout=3000, heap="3g")
    return (path, n, res, None)


def validate(run, traces, module="SessionTrace", mods=None):
    rejects = []
    mods = mods or ["Session.tla", "SessionTrace.tla"]
    with concurrent.futures.ThreadPoolExecutor(max_workers=min(8, NCPU)) as ex:
        for path, n, res, _ in ex.map(validate_one, [(run.dir, p, i, module, mods) for i, p in enumerate(traces)]):
            if n == 0:
                continue
            if not res.ok:
                raise Inconclusive("session trace validation failed on %s: %s\n%s" % (path, res.error, res.raw_tail[-2500:]))
            if res.depth != n + 1:
                raise Inconclusive("session trace validation consumed %d of %d records of %s" % (res.depth - 1, n, path))
            run.records += n
            run.states += res.distinct
            run.transitions += res.generated
            se = split_lines(res, "SPECERR")
            if se:
                raise Inconclusive("records of %s are not what the trace specification expects: %s" % (path, json.dumps(se[:3])[:800]))
            seen = set()
            for r in split_lines(res, "REJECT"):
                key = json.dumps(r)
                if key not in seen:
                    seen.add(key)
                    rejects.append(r)
    return rejects


def common_pool(run, rnd, quick):
    """The scenario pool every session property is checked on."""
    scns = []
    for role in ("acceptor", "initiator"):
        scns += tlc_scenarios(run, role, "mix", 2 if quick else 3, keep=(700 if quick else 6000), rnd=rnd)
        scns += tlc_scenarios(run, role, "admin", 2 if quick else 3, keep=(250 if quick else 4000), rnd=rnd)
        scns += tlc_scenarios(run, role, "time", 3 if quick else 4, keep=(150 if quick else 3000), rnd=rnd, hbcfg=2)
        scns += tlc_scenarios(run, role, "mix", 7, simulate="num=%d" % (80 if quick else 1500), rnd=rnd)
    # limits whose lower bound is above 1 (and an upper bound below the usual one)
    scns += tlc_scenarios(run, "acceptor", "logon", 2 if quick else 3, keep=(150 if quick else 3000), rnd=rnd, hbmin=3, hbmax=5, hbcfg=4)
    scns += gen_core(rnd)
    scns += gen_systematic()
    scns += gen_lookalike()
    scns += gen_config()
    scns += gen_timing(rnd, 2 if quick else 25)
    scns += gen_ids(rnd, 10 if quick else 400)
    scns += gen_resend(rnd, 40 if quick else 1200)
    scns += gen_prelogon(rnd, 60 if quick else 2000)
    scns += gen_damage(rnd, 160 if quick else 0)
    return scns


DEEP_FAMILY = {"C06": "logon", "C16": "admin", "C10": "resend", "C15": "logout", "C08": "time", "C09": "time", "C07": "admin", "C14": "admin"}


def deep_model_check(run, prop):
    """thorough tier: the property's own action alphabet one step deeper, properties only (no scenario emission)."""
    fam = DEEP_FAMILY.get(prop)
    if not fam:
        return
    for role in ("acceptor", "initiator"):
        depth = 6 if fam in ("logon", "resend", "logout", "time") else 4
        res = tlc("MCSession", mc_cfg(role, fam, depth, emit=False), run.sub("mc-deep-%s-%s" % (role[0], fam)), ["Session.tla", "MCSession.tla"],
                  workers=NCPU, timeout=2400, heap="24g")
        run.add_mc(res, "MCSession role=%s family=%s depth=%d, properties only" % (role, fam, depth))


def extra_pool(run, prop, rnd, quick):
    """Property-specific depth on top of the common pool."""
    if prop in ("C08", "C09", "C15"):
        return gen_timing(rnd, 6 if quick else 60)
    if prop == "C14":
        return gen_ids(rnd, 100 if quick else 3000)
    if prop == "C10":
        return gen_resend(rnd, 150 if quick else 4000)
    if prop == "C07":
        return gen_prelogon(rnd, 300 if quick else 8000)
    if prop == "C16":
        return gen_damage(rnd, 0) + gen_prelogon(rnd, 100 if quick else 3000)
    if prop == "C06":
        out = []
        for role in ("acceptor", "initiator"):
            out += tlc_scenarios(run, role, "logon", 3 if quick else 4, keep=(600 if quick else 20000), rnd=rnd)
        return out
    return []


def find_scenario(scns, sid):
    for sc in scns:
        if sc["id"] == sid:
            return sc
    return None


def check(prop, tier, seed):
    run = Run(prop, tier, seed)
    quick = tier == "quick"
    rnd = random.Random(seed * 7919 + sum(ord(c) for c in prop))
    binp = go_test_build("./sess/", "sess.test")
    pool_rnd = random.Random(seed)
    if not quick:
        deep_model_check(run, prop)
    scns = common_pool(run, pool_rnd, quick)
    ncommon = len(scns)
    extra = extra_pool(run, prop, rnd, quick)
    for sc in extra:
        sc["id"] = "x-" + sc["id"]
    scns += extra
    traces = run_driver(run, binp, scns, "pool")
    run.traces = len(scns)
    # two real sessions talking to each other (each side's log is an ordinary scenario trace)
    duplex = [dict(id="dx-%d" % i, hb=pool_rnd.choice([1, 2, 5, 30]), seed=pool_rnd.randint(1, 10**6), steps=pool_rnd.choice([30, 80, 200]),
                   closeMs=pool_rnd.choice([0, 500, 2000]), dropPct=pool_rnd.choice([0, 0, 10])) for i in range(40 if quick else 1500)]
    traces += run_driver(run, binp, duplex, "duplex", testname="TestDuplex")
    run.traces += 2 * len(duplex)
    run.extra["duplex_runs_two_real_sessions"] = len(duplex)
    rejects = validate(run, traces)
    # the repository's own integration tests, traced through the verif-tagged hooks and validated event by event
    import repo_tests
    rejects += repo_tests.check(run)
    # the whole library end to end over TCP (acceptor + initiator + two real sessions + a faulty transport)
    if prop in ("C06", "C07", "C08", "C09", "C14"):
        import stack_checks
        rejects += stack_checks.check(run, quick, seed)
        if prop == "C14":
            rejects += stack_checks.shared_check(run, quick)
        run.assumptions_extra = [stack_checks.ASSUMPTION]
    # C09 ends with "... stops its handler, and the connection is closed": the silent-peer disconnect on a real Acceptor / Initiator
    # with a scripted connection (harness/wirerig, real time, HeartBtInt 1): serving call returned, socket closed, notification
    if prop == "C09":
        import lifecycle_checks
        lrnd = random.Random(seed)
        lsc = [x for x in lifecycle_checks.grid(lrnd, False) if x["cause"] == "timer_disconnect" and not x["cause2"]]
        lsc = lsc[:4] if quick else lsc
        lbin = go_test_build("./wirerig/", "wirerig.test")
        ltr = run_driver(run, lbin, lsc, "life", testname="TestLifecycle")
        lrej = validate(run, ltr, module="LifecycleTrace", mods=["LifecycleTrace.tla"])
        _, lkn = classify("C13", [r for r in lrej if r[0] == "C13"])   # what is recorded as a finding of C13 is not raised again here
        known_ids = set()
        for fid, (entry, cnt) in lkn.items():
            pass
        lv, _ = classify("C13", [r for r in lrej if r[0] == "C13"])
        for r in lv:
            if r[2] in ("the socket was not closed", "the serving call did not return", "no disconnect / stopped notification was delivered"):
                rejects.append(["C09", r[1], "after the silent-peer disconnect: " + r[2], r[3]])
        run.extra["silent_peer_disconnect_on_a_connection"] = len(lsc)
        run.traces += len(lsc)
    # the untimed histories of the pool over a real connection (real Acceptor / Initiator + session, raw TCP peer)
    if prop in ("C06", "C07", "C10", "C14", "C15", "C16"):
        import stack_checks
        rejects += stack_checks.wire_check(run, quick, seed)
        run.assumptions_extra = getattr(run, "assumptions_extra", []) + [stack_checks.WIRE_ASSUMPTION]
    mine = [r for r in rejects if r[0] == prop]
    others = {}
    for r in rejects:
        if r[0] != prop:
            others[r[0]] = others.get(r[0], 0) + 1
    if others:
        run.notes.append("rejections tagged with other properties in the same traces (decided by their own checks): %s" % json.dumps(others))
    viol, kn = classify(prop, mine)
    run.add_known(kn)
    seen = set()
    for r in viol:
        sid = r[1].split("#")[0]
        key = (r[2], json.dumps(r[3].get("action") if isinstance(r[3], dict) else None))
        if key in seen and len(run.violations) >= 3:
            continue
        seen.add(key)
        if len(run.violations) >= 12:
            break
        import stack_checks
        run.violation(r, stack_checks.replay_obj(prop, r) or {"property": prop, "kind": "session", "reject": r, "scenario": find_scenario(scns, sid)})
    if len(viol) > len(run.violations):
        run.notes.append("%d rejected steps in total for this property" % len(viol))
    for sc in scns[:2] + scns[ncommon:ncommon + 2]:
        run.samples.append({"scenario": sc["id"], "role": sc["cfg"]["role"],
                            "steps": [(a["a"] + ("!" + a["integ"] if a.get("integ", "none") != "none" else "") +
                                       ("@" + str(a["ms"]) if a["a"] == "advance" else "")) for a in sc["steps"]][:14]})
    run.extra["scenarios_common_pool"] = ncommon
    run.extra["scenarios_property_specific"] = len(extra)
    run.assumptions = [
        "virtual time of testing/synctest (go1.26.8): timers, tickers and contexts of the library run on the bubble's clock; scheduling slack is zero",
        "the session is driven through a real DefaultHandler (ServeIncoming / Outgoing()) with the bundled memory store; inbound bytes are framed by the harness' own encoder",
        "observations are taken at quiescence (synctest.Wait) after every step; outbound messages are tokenised by an independent SOH/'=' splitter",
        "timer behaviour is bound at the level of the properties (window [T, T+T/10]), not the exact tick phase",
    ] + getattr(run, "assumptions_extra", [])
    rule = ("scenario = a history of inbound classes (valid/refused/damaged Logon, Logout, Heartbeat, TestRequest, ResendRequest, application, unknown), "
            "local calls (Send, Logout, Stop) and time advances, for both roles; sources: every history TLC explored in MCSession up to the "
            "configured depth (sampled), TLC -simulate histories of depth 7, and seeded generators (deadline timing, TestReqID bytes, resend "
            "ranges, pre-logon histories, damage x state x type). Each step is one trace record validated by SessionTrace; a scenario is "
            "distinct by its action sequence and non-trivial when at least one message is exchanged")
    return run.finish(rule)


def replay(obj):
    sc = obj.get("scenario")
    if not sc:
        print("no scenario in replay file")
        return 2
    run = Run(obj["property"], "replay", 0)
    binp = go_test_build("./sess/", "sess.test")
    traces = run_driver(run, binp, [sc], "replay")
    rej = validate(run, traces)
    print("replay of scenario %s (%d steps)" % (sc["id"], len(sc["steps"])))
    with open(traces[0]) as f:
        for line in f:
            r = json.loads(line)
            if r["k"] == "step":
                print("  step %d %-8s t=%d outs=%s logged=%s ctx=%s" % (r["i"], r["a"]["a"], r["t"],
                      [(o["ty"], o["seq"], o["t"]) for o in r["outs"]], r["logged"], r["ctx"]))
    for r in rej:
        print("  REJECT", json.dumps(r)[:700])
    return 1 if any(r[0] == obj["property"] for r in rej) else 0
