"""The whole library end to end (harness/stack, verif build): a real Acceptor and a real Initiator with real sessions on both
sides over TCP loopback, through a proxy that can stall a direction or lose a message.  The handler events of both sides
(trace hooks) are validated by SessionEventTrace, the byte stream each side really put on the wire by WireTrace.

Time is real here, so a rejection counts only if the SAME scenario is rejected for the same property and reason when it is
run a second time on its own."""
import zlib
import json, os, random
from vlib import *
import repo_tests
import session_checks as sc

SLACK_MS = 200


def S(at, op):
    return dict(at=at, op=op)


def scenarios(seed, n_random):
    rnd = random.Random(seed * 104729 + 17)
    out = []

    def add(name, hb, steps, end, clean=False, buf=0):
        out.append(dict(id="st-%s-%d" % (name, len(out)), hb=hb, seed=rnd.randint(1, 10**6), steps=sorted(steps, key=lambda s: s["at"]), endMs=end, clean=clean, buf=buf,
                        timed=not any(st["op"].startswith("block") for st in steps),
                        # back-pressure and the big bursts on synchronous in-memory connections (see harness/stack: Pipe)
                        pipe=any(st["op"].startswith("block") or "burst" in st["op"] for st in steps) and name != "burst-tcp"))
        # (a big send runs in a goroutine of its own, like a burst)
    # steady state: nothing but timers
    add("steady", 1, [], 3600)
    add("steady2", 2, [], 5200)
    # traffic in both directions, orderly logout from either side
    add("traffic", 1, [S(200, "ini-send"), S(350, "acc-send"), S(360, "ini-send"), S(900, "acc-send"), S(1400, "ini-send"), S(2300, "ini-logout")], 3000, clean=True)
    add("traffic-acc-logout", 1, [S(200, "ini-send"), S(250, "acc-send"), S(1700, "ini-send"), S(2200, "acc-logout")], 3000, clean=True)
    # a burst larger than every buffer of the pipeline (handler channels 10, connection 10)
    add("burst", 1, [S(300 + (i // 20), "ini-send") for i in range(60)] + [S(320 + (i // 20), "acc-send") for i in range(60)], 2600, clean=True)
    # one direction silent: TestRequest, then either the answer arrives late or never
    add("stall-i2a-late", 1, [S(450, "stall-i2a"), S(2450, "resume-i2a")], 4200)
    add("stall-a2i-late", 1, [S(450, "stall-a2i"), S(2450, "resume-a2i")], 4200)
    add("stall-i2a-forever", 1, [S(450, "stall-i2a")], 5200)
    add("stall-both", 1, [S(450, "stall-i2a"), S(460, "stall-a2i"), S(2600, "resume-i2a"), S(2610, "resume-a2i")], 4500)
    add("stall-while-sending", 1, [S(300, "stall-a2i")] + [S(400 + 150 * i, "acc-send") for i in range(8)] + [S(1900, "resume-a2i")], 3500)
    # a lost message (the library asks for retransmission at logon only; what matters here is that nothing else goes wrong)
    add("drop-i2a", 1, [S(300, "ini-send"), S(400, "drop-i2a"), S(500, "ini-send"), S(700, "ini-send"), S(1500, "ini-send")], 3000)
    add("drop-a2i", 1, [S(300, "acc-send"), S(400, "drop-a2i"), S(500, "acc-send"), S(700, "acc-send")], 3000)
    add("logout-unanswered", 1, [S(500, "stall-a2i"), S(600, "ini-logout")], 3500)
    add("logout-then-traffic", 1, [S(500, "ini-logout"), S(700, "acc-send"), S(800, "ini-send")], 2500)
    # the answer to the TestRequest arrives after the next heartbeat was due, before the session gives up
    add("stall-i2a-verylate", 1, [S(450, "stall-i2a"), S(3400, "resume-i2a")], 5000)
    add("stall-a2i-verylate", 1, [S(450, "stall-a2i"), S(3400, "resume-a2i")], 5000)
    # real back-pressure: the proxy stops reading (socket buffers of 2 KB) while one side sends 300 messages from a goroutine of
    # its own (no synchronous send while a direction is blocked: it would block the script).  While the transport is blocked the
    # session cannot send a heartbeat either, so these scenarios are judged on the wire and on delivery only (timed=False), with a
    # heartbeat interval that keeps the timers out of the picture
    add("backpressure-i2a", 10, [S(300, "block-i2a"), S(350, "ini-burst"), S(1300, "unblock-i2a")], 4600, clean=True)
    add("backpressure-a2i", 10, [S(300, "block-a2i"), S(350, "acc-burst"), S(1300, "unblock-a2i")], 4600, clean=True)
    add("backpressure-both", 10, [S(300, "block-a2i"), S(310, "block-i2a"), S(350, "acc-burst"), S(360, "ini-burst"), S(1500, "unblock-a2i"),
                                  S(1600, "unblock-i2a")], 5200, clean=True)
    # queues of 512 messages behind a blocked transport (tens of kilobytes waiting for the writer), and single messages larger than
    # any buffer with more queued right behind them
    add("backpressure-bigqueue", 10, [S(300, "block-i2a"), S(305, "block-a2i"), S(350, "ini-burst"), S(360, "acc-burst-reuse"), S(1300, "unblock-i2a"),
                                      S(1350, "unblock-a2i")], 4800, clean=True, buf=512)
    add("backpressure-bigmsgs", 10, [S(300, "block-i2a"), S(305, "block-a2i"), S(350, "ini-send-big"), S(352, "acc-send-big"), S(400, "ini-burst"),
                                     S(410, "acc-burst"), S(500, "ini-send-big"), S(1300, "unblock-i2a"), S(1350, "unblock-a2i")], 4800, clean=True)
    # 30 TestRequests from each side while the other direction is blocked: the echoes wait in full queues and leave in order
    add("backpressure-testreq", 10, [S(300, "block-a2i"), S(350, "ini-testreq-burst"), S(1300, "unblock-a2i")], 3600, buf=4)
    add("backpressure-testreq-i", 10, [S(300, "block-i2a"), S(350, "acc-testreq-burst"), S(1300, "unblock-i2a")], 3600, buf=4)
    # (only ONE direction is blocked while the other side asks: with both blocked and both asking, each side's reply waits for the
    #  lock its own blocked sender holds - the two sessions wait for each other until a write deadline ends a connection; that is
    #  how the send path is built and no property speaks of it)
    add("burst-free", 1, [S(300, "ini-burst"), S(300, "acc-burst")], 2600, clean=True)
    add("burst-tcp", 1, [S(300, "ini-burst"), S(300, "acc-burst-reuse")], 2600, clean=True)
    # retransmission on request in the middle of traffic: what follows is numbered on from where the first transmissions stopped
    add("resend-then-traffic", 2, [S(200, "acc-send"), S(250, "acc-send"), S(300, "ini-send"), S(400, "ini-askresend"), S(600, "acc-send"), S(650, "acc-send"),
                                   S(700, "acc-askresend"), S(900, "ini-send"), S(1000, "ini-send")], 2000)
    # the same message object sent again and again while earlier copies are still queued
    add("burst-reuse", 1, [S(300, "ini-burst-reuse"), S(300, "acc-burst-reuse")], 2600, clean=True)
    add("backpressure-reuse", 10, [S(300, "block-i2a"), S(305, "block-a2i"), S(350, "ini-burst-reuse"), S(360, "acc-burst-reuse"), S(1200, "unblock-i2a"),
                                   S(1250, "unblock-a2i")], 4800, clean=True)
    ops = ["ini-send", "acc-send", "ini-send", "acc-send", "stall-i2a", "resume-i2a", "stall-a2i", "resume-a2i", "drop-i2a", "drop-a2i"]
    for i in range(n_random):
        hb = rnd.choice([1, 1, 2])
        end = rnd.choice([2500, 3500, 4500])
        steps = [S(rnd.randint(150, end - 600), rnd.choice(ops)) for _ in range(rnd.randint(2, 14))]
        if rnd.random() < 0.4:
            steps.append(S(rnd.randint(end - 1200, end - 500), rnd.choice(["ini-logout", "acc-logout"])))
        add("rnd", hb, steps, end)
    return out


def run_once(run, binp, scns, name):
    d = run.sub("stack-" + name)
    inp = os.path.join(d, "in.json")
    with open(inp, "w") as f:
        json.dump(scns, f)
    env = goenv()
    env["VERIF_STACK_IN"], env["VERIF_STACK_OUT"] = inp, d
    tmo = int(os.environ.get("VERIF_DRIVER_TIMEOUT", "600"))
    p = sh([binp, "-test.run", "TestStack", "-test.timeout", "%ds" % tmo], cwd=d, env=env, timeout=tmo + 30, check=False)
    if p.returncode != 0 or not os.path.exists(os.path.join(d, "hooks.txt")):
        lc = library_crash(p.stdout or "")
        if lc:
            raise LibraryPanic(lc[0], lc[1], "whole-stack scenarios")
        raise Inconclusive("stack driver failed:\n" + (p.stdout or "")[-2500:])
    fails = json.load(open(os.path.join(d, "fails.json")))
    if fails:
        raise Inconclusive("stack driver could not set up: %s" % json.dumps(fails)[:500])
    ev = os.path.join(d, "events.ndjson")
    untimed = {sc["id"] for sc in scns if not sc.get("timed", True)}
    timed_hooks = os.path.join(d, "hooks.timed.txt")
    with open(os.path.join(d, "hooks.txt")) as f, open(timed_hooks, "w") as g:
        for line in f:
            parts = line.split(" ")
            if len(parts) >= 3 and parts[2].split("/")[0] not in untimed:
                g.write(line)
    n, ns = repo_tests.convert(timed_hooks, ev, "")
    # SessionEventTrace
    cfg = ("SPECIFICATION Spec\nCONSTANTS\n TraceFile = \"%s\"\n Slack = %d\nPOSTCONDITION TraceAccepted\nCHECK_DEADLOCK FALSE\n" % (ev, SLACK_MS))
    res = tlc("SessionEventTrace", cfg, run.sub("tv-stack-ev-" + name), ["Session.tla", "SessionEventTrace.tla"], workers=1, timeout=900, heap="3g")
    if not res.ok:
        raise Inconclusive("validation of the stack events failed: %s\n%s" % (res.error, res.raw_tail[-2000:]))
    run.states += res.distinct
    run.transitions += res.generated
    rej = split_lines(res, "REJECT")
    # WireTrace
    wire = os.path.join(d, "wire.ndjson")
    nw = sum(1 for _ in open(wire))
    cfg = "SPECIFICATION Spec\nCONSTANT TraceFile = \"%s\"\nPOSTCONDITION TraceAccepted\nCHECK_DEADLOCK FALSE\n" % wire
    res = tlc("WireTrace", cfg, run.sub("tv-stack-wire-" + name), ["WireTrace.tla"], workers=1, timeout=900, heap="3g")
    if not res.ok:
        raise Inconclusive("validation of the stack wire failed: %s\n%s" % (res.error, res.raw_tail[-2000:]))
    run.states += res.distinct
    run.transitions += res.generated
    rej += split_lines(res, "REJECT")
    # FramingTrace: what each handler was given against what the proxy passed on, what each side wrote against what it handed off
    frs = framing_records(d, os.path.join(d, "framing"))
    before = run.records
    rej += sc.validate(run, frs, module="FramingTrace", mods=["Framing.tla", "FramingTrace.tla"])
    nf = run.records - before
    run.records = before
    return rej, n, nw + nf


TAIL_MS = 150


def framing_records(d, out):
    """one FramingTrace record per side of every scenario.  A message that was passed on (or handed off) within the last
    TAIL_MS before the scenario was torn down and did not arrive is not counted: the teardown cut it off, not the library."""
    hooks = {}
    with open(os.path.join(d, "hooks.txt")) as f:
        for line in f:
            parts = line.rstrip("\n").split(" ")
            if len(parts) < 4 or parts[1] not in ("in", "out") or not parts[3]:
                continue
            hooks.setdefault((parts[2], parts[1]), []).append((int(parts[0]), bytes.fromhex(parts[3])))
    prox = {}
    with open(os.path.join(d, "proxy.ndjson")) as f:
        for line in f:
            o = json.loads(line)
            prox[(o["id"], o["from"])] = o

    def trim(full, got, end):
        # drop undelivered tail messages that are younger than TAIL_MS
        full = list(full)
        while len(full) > len(got) and full[-1][0] >= end - TAIL_MS:
            full.pop()
        return [list(m) for _, m in full]
    recs = []
    for (sid, frm), o in sorted(prox.items()):
        other = "acc" if frm == "ini" else "ini"
        end = o["endMs"]
        fwd = [(m["t"], bytes.fromhex(m["hex"])) for m in o["fwd"]]
        seen = [(m["t"], bytes.fromhex(m["hex"])) for m in o["seen"]]
        delivered = hooks.get((sid + "/" + other, "in"), [])
        handoff = hooks.get((sid + "/" + frm, "out"), [])
        hand_set = {m for _, m in handoff}
        written = [list(m) for _, m in seen]
        if any(m not in hand_set for _, m in seen) or len({m for _, m in seen}) != len(seen):
            hand = written                # retransmissions do not pass the hook: nothing to compare the hand-off with
        elif o["clean"]:
            hand = trim(handoff, seen, end)
        else:
            # a connection that was closed under the session (by the peer, by a fault): what was handed off after that never
            # reaches the wire; what did reach it must still be the hand-off, in order
            hand = [list(m) for _, m in handoff[:len(seen)]]
        sent = trim(fwd, delivered, end) if o["clean"] else [list(m) for _, m in fwd[:max(len(delivered), 0)]] if len(delivered) < len(fwd) else [list(m) for _, m in fwd]
        dl = [list(m) for _, m in delivered]
        # windows of W messages: equality of the whole is equality of every window (plus equal counts, which the last window shows)
        W = 50
        k = 0
        while True:
            last = (k + W >= max(len(sent), len(dl))) and (k + W >= max(len(hand), len(written)))
            recs.append(dict(k="frame", id="%s/%s-to-%s@%d" % (sid, frm, other, k), role="acceptor" if other == "acc" else "initiator", conn=0,
                             sent=sent[k:] if last else sent[k:k + W], chunks=[o["chunks"]], delivered=dl[k:] if last else dl[k:k + W],
                             handoff=hand[k:] if last else hand[k:k + W], written=written[k:] if last else written[k:k + W], overlap=False, writeFault=False, stopped=0))
            if last:
                break
            k += W
    nfiles = 8
    paths = []
    for i in range(nfiles):
        part = recs[i::nfiles]
        if not part:
            continue
        pth = "%s.%d.ndjson" % (out, i)
        with open(pth, "w") as g:
            for r in part:
                g.write(json.dumps(r) + "\n")
        paths.append(pth)
    return paths


def scen_of(r):
    # "st-name-3/ini-i#12" (events), "st-name-3/ini" (wire), "st-name-3/ini-to-acc@50/conn0" (framing)
    return r[1].split("#")[0].split("/")[0]


def check(run, quick, seed):
    """-> rejects (lists [prop, id, what, detail]) that reproduced when their scenario was run again on its own"""
    binp = go_test_build("./stack/", "stack.test", tags="verif")
    scns = scenarios(seed, 20 if quick else 300)
    rej, n, nw = run_once(run, binp, scns, "all")
    run.records += n + nw
    run.traces += 2 * len(scns)
    run.extra["whole_stack_over_tcp"] = {"scenarios": len(scns), "handler_events": n, "wire_and_framing_records": nw, "slack_ms": SLACK_MS,
                                         "rejected_first_run": len(rej)}
    if not rej:
        return []
    again = [sc for sc in scns if sc["id"] in {scen_of(r) for r in rej}]
    rej2, _, _ = run_once(run, binp, again, "again")
    keys2 = {(r[0], scen_of(r), r[2]) for r in rej2}
    both = [r for r in rej if (r[0], scen_of(r), r[2]) in keys2]
    run.extra["whole_stack_over_tcp"]["rejected_in_both_runs"] = len(both)
    for r in both:
        if isinstance(r[3], dict):
            r[3]["stack_scenario"] = next((sc for sc in scns if sc["id"] == scen_of(r)), None)
    return both


def replay(obj):
    run = Run(obj["property"], "replay", 0)
    binp = go_test_build("./stack/", "stack.test", tags="verif")
    if obj.get("wire_scenario"):
        base = obj["wire_scenario"]
        rej, n = wire_once(run, binp, [dict(base, id="%s.r%d" % (base["id"], k)) for k in range(4)], "replay")
        print("replay of wire history %s (%d steps, 4 copies)" % (base["id"], len(base["steps"])))
        for r in rej:
            print("  REJECT", json.dumps(r)[:700])
        return 1 if any(r[0] == obj["property"] for r in rej) else 0
    base = obj.get("scenarios") or [obj["scenario"]]
    # timing-dependent: several copies side by side (as in the check, where the scenarios of a pool run concurrently)
    scns = [dict(sc, id="%s.r%d" % (sc["id"], k)) for sc in base for k in range(8)]
    rej, n, nw = run_once(run, binp, scns, "replay")
    print("replay of %d whole-stack scenario(s): %d handler events, %d wire / framing records" % (len(scns), n, nw))
    for r in rej:
        print("  REJECT", json.dumps(r)[:700])
    return 1 if any(r[0] == obj["property"] for r in rej) else 0


def replay_obj(prop, r):
    """the replay file content for a whole-stack rejection, or None if r is not one"""
    if isinstance(r[3], dict) and r[3].get("wire_scenario"):
        scn = r[3].pop("wire_scenario")
        return {"property": prop, "kind": "stack", "reject": r, "wire_scenario": scn}
    if isinstance(r[3], dict) and r[3].get("stack_scenario"):
        scn = r[3].pop("stack_scenario")
        return {"property": prop, "kind": "stack", "reject": r, "scenario": scn}
    return None


WIRE_ASSUMPTION = ("session histories over TCP run in real time: a step is over when nothing has arrived for 40 ms; a rejection counts only if "
                   "it reproduces when the history is run again")
ASSUMPTION = ("whole-stack scenarios run in real time over TCP loopback: a rejection counts only if the same scenario is rejected for the same "
              "reason when run again on its own; timer windows are widened by %d ms" % SLACK_MS)


# ---- the session pool's untimed histories over a real connection (harness/stack TestWireSess) ----

def wire_pool(run, seed, quick):
    """histories without timed steps from the generators of the session pool, both roles"""
    rnd = random.Random(seed * 31337 + 5)
    scns = []
    scns += sc.gen_ids(rnd, 20 if quick else 600)
    scns += sc.gen_resend(rnd, 60 if quick else 1500)
    scns += sc.gen_prelogon(rnd, 80 if quick else 2500)
    scns += sc.gen_damage(rnd, 120 if quick else 1500)
    scns += sc.gen_systematic()
    for role in ("acceptor", "initiator"):
        scns += sc.tlc_scenarios(run, role, "admin", 2 if quick else 3, keep=(150 if quick else 3000), rnd=rnd)
        scns += sc.tlc_scenarios(run, role, "logon", 2 if quick else 3, keep=(100 if quick else 2000), rnd=rnd)
    out = []
    for s in scns:
        if any(a["a"] == "advance" or a.get("mid") for a in s["steps"]):
            continue
        s = dict(s, id="w-" + s["id"], cfg=dict(s["cfg"], hbCfg=30 if s["cfg"]["role"] == "initiator" else s["cfg"]["hbCfg"]))
        # handler queues of size 0, 1 and 10; and every history ends with a pipelined batch (ONE write): a damaged Heartbeat, a
        # TestRequest, a damaged TestRequest, a TestRequest, a Logout - whatever state the session is in by then
        h = zlib.crc32(s["id"].encode())
        s["cfg"]["buf"] = [0, 1, 10][h % 3]
        if s["steps"] and s["steps"][0]["a"] == "run":
            s["steps"] = list(s["steps"]) + [sc.act("hbt", seq=9001, integ="checksum", pipe=True), sc.act("testreq", seq=9002, id=[116, 49], pipe=True),
                                             sc.act("testreq", seq=9003, integ="checksum", id=[116, 120], pipe=True),
                                             sc.act("testreq", seq=9004, id=[116, 50], pipe=True), sc.act("logout", seq=9005, pipe=True)]
        out.append(s)
    return out


def wire_once(run, binp, scns, name):
    d = run.sub("wiresess-" + name)
    inp = os.path.join(d, "in.json")
    with open(inp, "w") as f:
        json.dump(scns, f)
    env = goenv()
    env["VERIF_STACK_IN"], env["VERIF_STACK_OUT"] = inp, d
    tmo = int(os.environ.get("VERIF_DRIVER_TIMEOUT", "900"))
    p = sh([binp, "-test.run", "TestWireSess", "-test.timeout", "%ds" % tmo], cwd=d, env=env, timeout=tmo + 30, check=False)
    tr = os.path.join(d, "wiresess.ndjson")
    if p.returncode != 0 or not os.path.exists(tr):
        lc = library_crash(p.stdout or "")
        if lc:
            raise LibraryPanic(lc[0], lc[1], "session histories over TCP")
        raise Inconclusive("wire-session driver failed:\n" + (p.stdout or "")[-2500:])
    fails = json.load(open(os.path.join(d, "fails.json")))
    if fails:
        raise Inconclusive("wire-session driver could not set up: %s" % json.dumps(fails)[:500])
    # one file per TLC process: scenarios are independent ("init" record first)
    parts = [[] for _ in range(8)]
    k = -1
    with open(tr) as f:
        for line in f:
            if line.startswith('{"k":"init"'):
                k += 1
            parts[k % 8].append(line)
    paths = []
    for i, ls in enumerate(parts):
        if ls:
            pth = os.path.join(d, "wiresess.%d.ndjson" % i)
            with open(pth, "w") as g:
                g.writelines(ls)
            paths.append(pth)
    before = run.records
    rej = sc.validate(run, paths)
    n = run.records - before
    run.records = before
    return rej, n


def wire_check(run, quick, seed):
    """-> rejections of the wire histories that reproduced when the scenario was run again"""
    binp = go_test_build("./stack/", "stack.test", tags="verif")
    scns = wire_pool(run, seed, quick)
    rej, n = wire_once(run, binp, scns, "all")
    run.records += n
    run.traces += len(scns)
    run.extra["session_histories_over_tcp"] = {"scenarios": len(scns), "steps": n, "quiet_ms": 40, "rejected_first_run": len(rej)}
    if not rej:
        return []
    # what was on the wire is a fact, whatever the timing: a message that is not correctly framed (C01) needs no second run
    hard = [r for r in rej if r[0] == "C01"]
    ids = {r[1].split("#")[0] for r in rej}
    again = [s for s in scns if s["id"] in ids]
    rej2, _ = wire_once(run, binp, again, "again")
    keys2 = {(r[0], r[1], r[2]) for r in rej2}
    both = hard + [r for r in rej if (r[0], r[1], r[2]) in keys2 and r[0] != "C01"]
    run.extra["session_histories_over_tcp"]["rejected_in_both_runs"] = len(both)
    byid = {s["id"]: s for s in scns}
    for r in both:
        if isinstance(r[3], dict):
            r[3]["wire_scenario"] = byid.get(r[1].split("#")[0])
    return both


# ---- several sessions of one application at the same time, sharing what the API lets them share (harness/stack TestWireShared) ----

def shared_check(run, quick):
    """-> rejects of WireTrace on what each of six concurrent clients of one acceptor received (one options value and one
    unmarshaller object for all sessions).  What was on the wire is a fact: no second run is needed."""
    binp = go_test_build("./stack/", "stack.test", tags="verif")
    rej = []
    rounds = 2 if quick else 10
    for i in range(rounds):
        d = run.sub("shared-%d" % i)
        env = goenv()
        env["VERIF_STACK_OUT"] = d
        p = sh([binp, "-test.run", "TestWireShared", "-test.timeout", "120s"], cwd=d, env=env, timeout=150, check=False)
        tr = os.path.join(d, "shared.ndjson")
        if p.returncode != 0 or not os.path.exists(tr):
            lc = library_crash(p.stdout or "")
            if lc:
                raise LibraryPanic(lc[0], lc[1], "concurrent sessions of one acceptor")
            raise Inconclusive("shared-session driver failed:\n" + (p.stdout or "")[-2500:])
        cfg = "SPECIFICATION Spec\nCONSTANT TraceFile = \"%s\"\nPOSTCONDITION TraceAccepted\nCHECK_DEADLOCK FALSE\n" % tr
        res = tlc("WireTrace", cfg, run.sub("tv-shared-%d" % i), ["WireTrace.tla"], workers=1, timeout=600, heap="3g")
        if not res.ok:
            raise Inconclusive("validation of the shared-session wires failed: %s\n%s" % (res.error, res.raw_tail[-2000:]))
        run.states += res.distinct
        run.transitions += res.generated
        nmsgs = sum(len(json.loads(l)["msgs"]) for l in open(tr))
        run.records += 6
        run.extra.setdefault("concurrent_sessions_of_one_acceptor", {"rounds": 0, "clients": 6, "messages_received": 0})
        run.extra["concurrent_sessions_of_one_acceptor"]["rounds"] += 1
        run.extra["concurrent_sessions_of_one_acceptor"]["messages_received"] += nmsgs
        for r in split_lines(res, "REJECT"):
            if isinstance(r[3], dict):
                r[3]["shared_round"] = i
            rej.append(r)
    return rej


# ---- arbitrary byte strings on the inbound path of a running session (harness/stack TestWireGarbage; C11) ----

FIXED_GARBAGE = [b"\x01", b"\x01\x01", b"X\x01", b"XY\x01", b"=\x01", b"1\x01", b"10\x01", b"10=\x01", b"10=1\x01", b"8=\x01", b"\x01\x0110=000\x01",
                 b"8=FIX.4.4\x01\x019=5\x0135=0\x0110=000\x01", b"8=FIX.4.4\x019=\x0135=0\x0110=000\x01", b"35=\x0110=\x01", b"\x00\x01\x00\x01",
                 b"8=FIX.4.4\x019=5\x0135=0\x01\x0110=161\x01", b"9\x01", b"35\x01", b"34=\x0110=1\x01", b"A" * 5000 + b"\x01", b"10=" * 2000 + b"\x01"]


def _frame(ty, seq, body):
    b = b"".join(b"%s=%s\x01" % (k.encode(), v.encode() if isinstance(v, str) else v)
                 for k, v in [("35", ty), ("49", "PEER"), ("56", "SRV"), ("34", seq), ("52", "20260101-00:00:00.000")] + body)
    pre = b"8=FIX.4.4\x019=%d\x01" % len(b) + b
    return pre + b"10=%03d\x01" % (sum(pre) % 256)


def framed_edge_messages():
    """well-formed messages a peer can send whose CONTENT is at the edge: every administrative type (and SequenceReset) with
    numbers that are zero, negative, huge or reversed, identifiers that are empty or long; correctly framed, so that they pass the
    decoder and reach the session's handlers, the store and the send path"""
    nums = ["0", "-1", "1", "2", "3", "999999", "2147483648", "9223372036854775807", "-9223372036854775808", "00", "+1"]
    out = []
    for seq in ("2", "0", "-1", "9223372036854775807"):
        for b in nums:
            for e in ("0", "1", "2", "-1", "999999", "9223372036854775807"):
                if seq == "2" or (b in ("0", "-1") and e in ("0", "2")):
                    out.append(_frame("2", seq, [("7", b), ("16", e)]))
        for n in nums:
            out.append(_frame("A", seq, [("98", "0"), ("108", n)]))
            out.append(_frame("A", seq, [("98", n), ("108", "30")]))
            out.append(_frame("4", seq, [("36", n)]))
            out.append(_frame("4", seq, [("123", "Y"), ("36", n)]))
            out.append(_frame("3", seq, [("45", n), ("371", n), ("373", n)]))
        for ident in ("", " ", "x" * 300, "\x00", "10=000", "=", "35=5"):
            out.append(_frame("1", seq, [("112", ident)]))
            out.append(_frame("0", seq, [("112", ident)]))
            out.append(_frame("5", seq, [("58", ident)]))
        out += [_frame(t, seq, []) for t in ("0", "1", "2", "3", "4", "5", "A", "a", "", "AA")]
    return [list(m) for m in out]


def garbage_check(run, inputs):
    """-> rejects [["C11", id, what, detail]]; a panic of the library inside the driver raises LibraryPanic"""
    binp = go_test_build("./stack/", "stack.test", tags="verif")
    d = run.sub("garbage")
    inp = os.path.join(d, "in.json")
    edge = framed_edge_messages()
    allin = [list(b) for b in FIXED_GARBAGE] + edge + [[1]] + edge + inputs     # (twice: once before, once after a proper Logon)
    with open(inp, "w") as f:
        json.dump({"inputs": allin}, f)
    env = goenv()
    env["VERIF_STACK_IN"], env["VERIF_STACK_OUT"] = inp, d
    p = sh([binp, "-test.run", "TestWireGarbage", "-test.timeout", "900s"], cwd=d, env=env, timeout=960, check=False)
    txt = p.stdout or ""
    res = os.path.join(d, "garbage.json")
    if p.returncode != 0 or not os.path.exists(res):
        lc = library_crash(txt)
        if lc:
            raise LibraryPanic(lc[0], lc[1], "garbage on the inbound path")
        raise Inconclusive("garbage driver failed:\n" + txt[-2500:])
    o = json.load(open(res))
    run.records += o["wire"] + o["direct"]
    run.extra["arbitrary_bytes_on_the_inbound_path"] = dict(o, inputs=len(allin))
    rej = []
    if o["blocked"] > 0:
        rej.append(["C11", "garbage/direct", "the inbound path did not return for a byte string handed to ServeIncoming", {"blocked": o["blocked"]}])
    if not o["stillServing"]:
        rej.append(["C11", "garbage/wire", "the acceptor does not serve a fresh connection after arbitrary byte strings were sent to it", {"inputs": len(allin)}])
    return rej
