#!/bin/sh
# background sweep: every property's thorough tier, one after the other, against $VERIF_REPO (order: $SWEEP_PROPS, default C01..C20)
for p in ${SWEEP_PROPS:-C01 C02 C03 C04 C05 C06 C07 C08 C09 C10 C11 C12 C13 C14 C15 C16 C17 C18 C19 C20}; do
  start=$(date +%s)
  bin/check $p thorough > sweep-$p.log 2>&1
  echo "$p exit=$? wall=$(( $(date +%s) - start ))s $(grep -c '^VIOLATION' sweep-$p.log) violations; $(tail -1 sweep-$p.log | cut -c1-200)"
done
