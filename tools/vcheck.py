#!/usr/bin/env python3
"""bin/check <property> quick|thorough      bin/check replay <file>

Decides one property of /verif/properties.jsonl for /repo's current working tree with the
TLA+ specifications in /verif/spec bound to the code by the Go drivers in /verif/harness.
Prints `VIOLATION property=<id> replay=<path>` and exits 1 when a recorded execution of the
real code is rejected; exits 2 when the run is inconclusive (never a verdict)."""
import json, os, sys, traceback

sys.path.insert(0, os.path.dirname(os.path.abspath(__file__)))
import vlib
from vlib import Inconclusive


def registry():
    reg = {}
    import codec_checks
    for p in codec_checks.PLAN:
        reg[p] = codec_checks.check
    for modname in ("session_checks", "dispatch_checks", "framing_checks", "sendpath_checks", "lifecycle_checks",
                    "race_checks", "generator_checks"):
        try:
            mod = __import__(modname)
        except ImportError:
            continue
        for p in mod.PROPS:
            reg[p] = mod.check
    return reg


def main():
    if len(sys.argv) >= 3 and sys.argv[1] == "replay":
        with open(sys.argv[2]) as f:
            obj = json.load(f)
        kind = obj.get("kind", "codec")
        mod = __import__({"codec": "codec_checks"}.get(kind, kind + "_checks"))
        sys.exit(mod.replay(obj))
    if len(sys.argv) < 2:
        print(__doc__)
        sys.exit(2)
    prop = sys.argv[1]
    tier = sys.argv[2] if len(sys.argv) > 2 else os.environ.get("VERIF_TIER", "quick")
    if tier not in ("quick", "thorough"):
        tier = "quick"
    try:
        seed = int(os.environ.get("VERIF_SEED", "1"))
    except ValueError:
        seed = 1
    reg = registry()
    if prop not in reg:
        print("unknown property", prop)
        sys.exit(2)
    try:
        try:
            rc = reg[prop](prop, tier, seed)
        except Exception as ex:
            if type(ex).__name__ != "LibraryPanic":
                raise
            # the library panicked while the driver was exercising it: an execution of the real code no specification explains
            os.makedirs(os.path.join(vlib.OUT, "replay"), exist_ok=True)
            path = os.path.join(vlib.OUT, "replay", "%s-%s-panic.json" % (prop, tier))
            with open(path, "w") as f:
                json.dump({"property": prop, "kind": "panic", "panic": ex.msg, "stack": ex.stack, "driver": ex.where, "seed": seed}, f)
            vlib.write_inconclusive(prop, tier, seed, "library panic: " + ex.msg)
            print("VIOLATION property=%s replay=%s" % (prop, path))
            print("  detail: the library panicked or blocked for good inside the driver (%s): %s" % (ex.where, ex.msg))
            sys.exit(1)
    except Inconclusive as ex:
        print("INCONCLUSIVE property=%s: %s" % (prop, str(ex)[:4000]))
        vlib.write_inconclusive(prop, tier, seed, str(ex))
        sys.exit(2)
    except Exception:
        tb = traceback.format_exc()
        print("INCONCLUSIVE property=%s: internal error\n%s" % (prop, tb))
        vlib.write_inconclusive(prop, tier, seed, tb)
        sys.exit(2)
    sys.exit(rc)


if __name__ == "__main__":
    main()
