"""Shared machinery of /verif: running TLC, building and running the Go drivers against /repo's
working tree, collecting REJECT / SPECERR lines from trace validation, known findings,
evidence files and exit codes.

Exit codes of a check: 0 = property held on everything explored (KNOWN-FINDING lines allowed),
1 = VIOLATION (a recorded execution of the real code is rejected by the specification),
2 = INCONCLUSIVE (spec error, driver error, timeout, tool crash) -- never a verdict on the code.
"""
import json, os, re, shutil, subprocess, sys, time, hashlib

VERIF = os.path.dirname(os.path.dirname(os.path.abspath(__file__)))
REPO = os.environ.get("VERIF_REPO", "/repo")
SPEC = os.path.join(VERIF, "spec")
HARNESS = os.path.join(VERIF, "harness")
OUT = os.path.join(VERIF, "out")
BIN = os.path.join(OUT, "bin")
EVID = os.path.join(VERIF, "evidence")
GO = os.environ.get("VERIF_GO", "go1.26.8")
NCPU = os.cpu_count() or 4


class Inconclusive(Exception):
    pass


class LibraryPanic(Exception):
    """the library itself panicked, or the Go runtime ended the process because of what the library did (concurrent map access,
    deadlock), inside a driver process: an execution of the real code that no specification explains"""
    def __init__(self, msg, stack, where):
        Exception.__init__(self, msg)
        self.msg, self.stack, self.where = msg, stack, where


def library_crash(txt):
    """(message, stack) if the process output shows a crash whose faulting goroutine runs library code, else None"""
    m = re.search(r"^(panic: .*|fatal error: .*)$", txt or "", re.M)
    if not m or "DRIVER-ERROR" in txt:
        return None
    rest = txt[m.start():]
    # the first goroutine listed after the message is the faulting one
    g = re.search(r"\ngoroutine \d+ [^\n]*\n((?:.+\n)+)", rest)
    first = g.group(1) if g else rest[:4000]
    if "github.com/b2broker/simplefix-go" not in first:
        return None
    # a crash inside harness code that merely has library frames below it is not the library's
    top = [l for l in first.split("\n") if l and not l.startswith("\t") and not l.startswith("panic(") and not l.startswith("runtime.")]
    if top and top[0].startswith("verifharness"):
        return None
    return m.group(1), rest[:3000]


def goenv():
    e = dict(os.environ)
    e.update(GOFLAGS="-mod=mod", GOPROXY="off", GOSUMDB="off", GOTOOLCHAIN="local",
             GOCACHE=os.environ.get("GOCACHE", os.path.join(OUT, "gocache")))
    return e


def sh(cmd, cwd=None, env=None, timeout=None, check=True, stdout=None):
    t0 = time.time()
    try:
        p = subprocess.run(cmd, cwd=cwd, env=env, timeout=timeout, stdout=stdout or subprocess.PIPE,
                           stderr=subprocess.STDOUT, text=True, errors="replace")
    except subprocess.TimeoutExpired as ex:
        raise Inconclusive("timeout after %ss: %s" % (timeout, " ".join(cmd)[:200]))
    if check and p.returncode != 0:
        lc = library_crash(p.stdout or "")
        if lc:
            raise LibraryPanic(lc[0], lc[1], os.path.basename(cmd[0]))
        raise Inconclusive("command failed (%d): %s\n%s" % (p.returncode, " ".join(cmd)[:300], (p.stdout or "")[-3000:]))
    return p


def sync_gosum():
    """harness go.sum starts as a copy of /repo's (no network: nothing else can be resolved)."""
    dst = os.path.join(HARNESS, "go.sum")
    src = os.path.join(REPO, "go.sum")
    if not os.path.exists(dst) and os.path.exists(src):
        shutil.copy(src, dst)
    # VERIF_REPO: run against another checkout (background sweeps on a snapshot); the registered checks use /repo
    # (always written, so that a run against another checkout cannot leave the module pointing there)
    with open(os.path.join(HARNESS, "go.mod")) as f:
        mod = f.read()
    want = "replace github.com/b2broker/simplefix-go => " + REPO
    if want + "\n" not in mod + "\n":
        sh([GO, "mod", "edit", "-replace", "github.com/b2broker/simplefix-go=" + REPO], cwd=HARNESS, env=goenv(), timeout=60)


def go_build(pkg, name, tags=None, race=False):
    """Build a main package of the harness against /repo's current working tree."""
    os.makedirs(BIN, exist_ok=True)
    sync_gosum()
    out = os.path.join(BIN, name)
    cmd = [GO, "build"]
    if race:
        cmd.append("-race")
    if tags:
        cmd += ["-tags", tags]
    cmd += ["-o", out, pkg]
    sh(cmd, cwd=HARNESS, env=goenv(), timeout=900)
    return out


def go_test_build(pkg, name, tags=None, race=False):
    """Build a test binary (drivers that need testing/synctest) against /repo's working tree."""
    os.makedirs(BIN, exist_ok=True)
    sync_gosum()
    out = os.path.join(BIN, name)
    cmd = [GO, "test", "-c"]
    if race:
        cmd.append("-race")
    if tags:
        cmd += ["-tags", tags]
    cmd += ["-o", out, pkg]
    sh(cmd, cwd=HARNESS, env=goenv(), timeout=900)
    return out


# ------------------------------------------------------------------------------------------
# TLC

class TlcResult:
    def __init__(self):
        self.generated = 0
        self.distinct = 0
        self.depth = 0
        self.lines = []       # strings printed by PrintT (already unquoted)
        self.ok = False
        self.error = ""
        self.wall = 0.0
        self.raw_tail = ""


_STATS = re.compile(r"^(\d+) states generated, (\d+) distinct states found, (\d+) states left on queue")
_DEPTH = re.compile(r"The depth of the complete state graph search is (\d+)")


def tlc(module, cfg_text, workdir, modules, workers=None, timeout=1800, extra=None, simulate=None, heap=None):
    """Run TLC on `module` (name without .tla) with the given cfg text in a scratch dir.
    `modules`: spec files to copy from /verif/spec.  Returns TlcResult."""
    os.makedirs(workdir, exist_ok=True)
    for m in modules:
        shutil.copy(os.path.join(SPEC, m), os.path.join(workdir, m))
    with open(os.path.join(workdir, module + ".cfg"), "w") as f:
        f.write(cfg_text)
    meta = os.path.join(workdir, "meta")
    shutil.rmtree(meta, ignore_errors=True)
    cmd = ["java", "-XX:+UseParallelGC", "-Xss256m"]
    if heap:
        cmd.append("-Xmx" + heap)
    cmd += ["-cp", "/opt/veriftools/tla/tla2tools.jar:/opt/veriftools/tla/CommunityModules-deps.jar",
            "tlc2.TLC", "-workers", str(workers or 1), "-metadir", meta, "-noGenerateSpecTE"]
    if simulate:
        cmd += ["-simulate", simulate]
    if extra:
        cmd += extra
    cmd += [module + ".tla"]
    res = TlcResult()
    t0 = time.time()
    logp = os.path.join(workdir, module + ".out")
    try:
        with open(logp, "w") as lf:
            p = subprocess.run(cmd, cwd=workdir, stdout=lf, stderr=subprocess.STDOUT, timeout=timeout)
        rc = p.returncode
    except subprocess.TimeoutExpired:
        res.error = "TLC timeout after %ss" % timeout
        rc = -1
    res.wall = time.time() - t0
    tail = []
    with open(logp, errors="replace") as lf:
        for line in lf:
            line = line.rstrip("\n")
            if line.startswith('"') and line.endswith('"'):
                try:
                    res.lines.append(json.loads(line))
                    continue
                except Exception:
                    pass
            m = _STATS.match(line)
            if m:
                res.generated, res.distinct = int(m.group(1)), int(m.group(2))
            m = _DEPTH.search(line)
            if m:
                res.depth = int(m.group(1))
            if line.startswith("Error:") or "Exception" in line:
                if not res.error:
                    res.error = line
            tail.append(line)
            if len(tail) > 60:
                tail.pop(0)
    res.raw_tail = "\n".join(tail)
    res.ok = (rc == 0 and not res.error)
    if rc != 0 and not res.error:
        res.error = "TLC exit code %d" % rc
    shutil.rmtree(meta, ignore_errors=True)
    return res


def split_lines(res, prefix):
    """PrintT("<PREFIX> <json>") lines -> list of parsed json."""
    out = []
    for s in res.lines:
        if s.startswith(prefix + " "):
            try:
                out.append(json.loads(s[len(prefix) + 1:]))
            except Exception:
                out.append(s)
    return out


# ------------------------------------------------------------------------------------------
# known findings

def load_known():
    p = os.path.join(VERIF, "known_findings.json")
    if not os.path.exists(p):
        return []
    with open(p) as f:
        return json.load(f).get("findings", [])


def _sub(pattern, value):
    """pattern (dict/list/scalar) matches value if every key of pattern is in value with a matching value."""
    if isinstance(pattern, dict) and "$in" in pattern:
        return value in pattern["$in"]
    if isinstance(pattern, dict) and "$subset" in pattern:
        return isinstance(value, list) and all(v in pattern["$subset"] for v in value)
    if isinstance(pattern, dict):
        return isinstance(value, dict) and all(k in value and _sub(v, value[k]) for k, v in pattern.items())
    if isinstance(pattern, list):
        return isinstance(value, list) and len(pattern) == len(value) and all(_sub(a, b) for a, b in zip(pattern, value))
    return pattern == value


def classify(prop, rejects):
    """Split REJECT entries [prop, id, reason, detail] of this property into
    (violations, known) using open entries of known_findings.json."""
    known = [k for k in load_known() if k.get("property") == prop and k.get("status") == "open"]
    viol, kn = [], {}
    for r in rejects:
        hit = None
        for k in known:
            m = k.get("match", {})
            if m.get("reason") is not None and not _sub(m["reason"], r[2]):
                continue
            if "detail" in m and not _sub(m["detail"], r[3] if len(r) > 3 else None):
                continue
            hit = k
            break
        if hit is None:
            viol.append(r)
        else:
            kn.setdefault(hit["id"], [hit, 0])
            kn[hit["id"]][1] += 1
    return viol, kn


# ------------------------------------------------------------------------------------------
# evidence / verdict

class Run:
    def __init__(self, prop, tier, seed):
        self.prop, self.tier, self.seed = prop, tier, seed
        self.t0 = time.time()
        self.dir = os.path.join(OUT, "run-%s-%s" % (prop, tier))
        shutil.rmtree(self.dir, ignore_errors=True)
        os.makedirs(self.dir, exist_ok=True)
        os.makedirs(os.path.join(OUT, "replay"), exist_ok=True)
        self.states = 0
        self.transitions = 0
        self.traces = 0
        self.records = 0
        self.samples = []
        self.extra = {}
        self.assumptions = []
        self.violations = []   # (reject, replay_path)
        self.known = {}
        self.notes = []
        self.level = "model_checking"

    def sub(self, name):
        d = os.path.join(self.dir, name)
        os.makedirs(d, exist_ok=True)
        return d

    def add_mc(self, res, what):
        if not res.ok:
            raise Inconclusive("SPEC-ERROR model check %s: %s\n%s" % (what, res.error, res.raw_tail[-1500:]))
        self.states += res.distinct
        self.transitions += res.generated
        self.extra.setdefault("model_checks", []).append(
            {"what": what, "distinct_states": res.distinct, "states_generated": res.generated,
             "depth": res.depth, "wall_s": round(res.wall, 1)})

    def add_known(self, kn):
        for fid, (entry, cnt) in kn.items():
            if fid in self.known:
                self.known[fid][1] += cnt
            else:
                self.known[fid] = [entry, cnt]

    def violation(self, reject, replay_obj):
        n = len(self.violations) + 1
        path = os.path.join(OUT, "replay", "%s-%s-%d.json" % (self.prop, self.tier, n))
        with open(path, "w") as f:
            json.dump(replay_obj, f)
        self.violations.append((reject, path))

    def finish(self, rule, exhaustive=False):
        wall = time.time() - self.t0
        cov = {"states": max(self.states, 1), "transitions": max(self.transitions, 1),
               "traces_validated_against_impl": self.traces,
               "samples": self.samples[:6] if self.samples else ["(none)"],
               "records_validated": self.records, "rule": rule, "exhaustive": exhaustive,
               "known_findings_seen": {k: v[1] for k, v in self.known.items()},
               "notes": self.notes}
        cov.update(self.extra)
        ev = {"property_id": self.prop, "tier": self.tier, "seed": self.seed, "level": self.level,
              "coverage": cov, "assumptions": self.assumptions, "wall_s": round(wall, 2),
              "violations": len(self.violations)}
        os.makedirs(EVID, exist_ok=True)
        with open(os.path.join(EVID, self.prop + ".json"), "w") as f:
            json.dump(ev, f, indent=1)
        for fid, (entry, cnt) in sorted(self.known.items()):
            print("KNOWN-FINDING: property=%s %s (%s; seen %d times in this run)" % (self.prop, entry.get("what", fid), fid, cnt))
        for n in self.notes:
            print("NOTE:", n)
        if self.violations:
            for rej, path in self.violations[:20]:
                print("VIOLATION property=%s replay=%s" % (self.prop, path))
                print("  detail:", json.dumps(rej)[:600])
            return 1
        print("OK property=%s tier=%s states=%d records=%d traces=%d wall=%.1fs" % (
            self.prop, self.tier, self.states, self.records, self.traces, wall))
        return 0


def write_inconclusive(prop, tier, seed, msg):
    """An inconclusive run still rewrites the evidence file, saying so."""
    os.makedirs(EVID, exist_ok=True)
    ev = {"property_id": prop, "tier": tier, "seed": seed, "level": "other",
          "coverage": {"explanation": "INCONCLUSIVE: " + msg[:2000]}, "wall_s": 0.0, "violations": 0}
    with open(os.path.join(EVID, prop + ".json"), "w") as f:
        json.dump(ev, f, indent=1)
